#!/bin/sh
# Build the harness from files on disk only (offline).
set -e
cd "$(dirname "$0")/harness"
[ -f Cargo.lock ] || cp /repo/Cargo.lock Cargo.lock
CARGO_NET_OFFLINE=true cargo build --offline --bins
