//! A simulated child process, installed through the *public* spawn hook.
//!
//! `pre_spawn` swaps the program for `/bin/true` (or injects a spawn failure) and `wrap_child`
//! returns a child wrapper whose exit, signal and kill behaviour is a pure function of tokio time
//! and of the script. The production child path of the supervisor (`Box<dyn TokioChildWrapper>`)
//! is what runs; nothing in the supervisor is replaced.

use std::{
	future::Future,
	io::{Error, Result},
	os::unix::process::ExitStatusExt,
	process::ExitStatus,
	sync::{
		atomic::{AtomicI64, Ordering},
		Arc, Mutex,
	},
	time::Duration,
};

use process_wrap::tokio::{TokioChildWrapper, TokioCommandWrap, TokioCommandWrapper};
use serde::Deserialize;
use tokio::{
	process::{Child, Command},
	time::Instant,
};
use watchexec_events::ProcessEnd;
use watchexec_supervisor::job::{CommandState, JobTaskContext};

use crate::trace::{Ev, Recorder};

/// Scripted behaviour of the n-th spawned child.
#[derive(Clone, Debug, Default, Deserialize)]
pub struct Kid {
	/// exits by itself this many ms after spawn (None = never)
	#[serde(default)]
	pub self_at: Option<u64>,
	/// exits this many ms after the first non-KILL signal (None = ignores signals)
	#[serde(default)]
	pub sig_delay: Option<u64>,
	/// the spawn itself fails
	#[serde(default)]
	pub fail: bool,
	/// start_kill() returns an error (and does nothing)
	#[serde(default)]
	pub kill_fail: bool,
	/// signal() returns an error (and does nothing)
	#[serde(default)]
	pub sig_fail: bool,
	/// exit code of a self-exit
	#[serde(default)]
	pub code: i32,
}

/// Allocates child indices for one job and hands out the wrapper for each spawn.
#[derive(Clone)]
pub struct SimFactory {
	pub rec: Recorder,
	pub kids: Arc<Vec<Kid>>,
	pub next: Arc<AtomicI64>,
	/// first child index of this job minus one (several jobs share one recorder)
	pub base: i64,
}

impl SimFactory {
	/// To be called from inside a spawn hook when the wrapper is installed by the spawn interceptor
	/// (`on_intercept`) instead: records the hook call and leaves its mark on the command, nothing else,
	/// so that a job whose hook has been unset still gets a simulated child.
	pub fn hook_only(&self, tag: i64, command: &mut TokioCommandWrap, ctx: &JobTaskContext<'_>) {
		let n = self.next.load(Ordering::SeqCst) + 1;
		self.rec.rec(
			Ev::new("hook")
				.n(n)
				.x(tag)
				.a(state_class(ctx.current))
				.b(ctx.previous.map_or("none".into(), state_class)),
		);
		command.command_mut().env("VERIF_TAG", tag.to_string());
	}

	pub fn new(rec: Recorder, kids: Vec<Kid>) -> Self {
		Self {
			rec,
			kids: Arc::new(kids),
			next: Arc::new(AtomicI64::new(0)),
			base: 0,
		}
	}

	/// To be called from inside a spawn hook: records the hook call and installs the wrapper.
	pub fn on_hook(&self, tag: i64, command: &mut TokioCommandWrap, ctx: &JobTaskContext<'_>) {
		let n = self.next.fetch_add(1, Ordering::SeqCst) + 1;
		self.rec.rec(
			Ev::new("hook")
				.n(n)
				.x(tag)
				.a(state_class(ctx.current))
				.b(ctx.previous.map_or("none".into(), state_class)),
		);
		command.command_mut().env("VERIF_TAG", tag.to_string());
		let kid = self
			.kids
			.get((n - 1 - self.base) as usize)
			.cloned()
			.or_else(|| self.kids.last().cloned())
			.unwrap_or_default();
		command.wrap(SimWrapper {
			n,
			kid,
			tag: -1,
			rec: self.rec.clone(),
		});
	}
}

impl SimFactory {
	/// To be called from the `cfg(watchexec_verif)` spawn interceptor: no hook context, the
	/// command was prepared by somebody else's spawn hook (the CLI's).
	pub fn on_intercept(&self, command: &mut TokioCommandWrap) {
		let n = self.next.fetch_add(1, Ordering::SeqCst) + 1;
		let kid = self
			.kids
			.get((n - 1 - self.base) as usize)
			.cloned()
			.or_else(|| self.kids.last().cloned())
			.unwrap_or_default();
		command.wrap(SimWrapper {
			n,
			kid,
			tag: -1,
			rec: self.rec.clone(),
		});
	}
}

/// How a `CommandState` looks from a hook or a `run()` closure.
pub fn state_class(state: &CommandState) -> String {
	match state {
		CommandState::Pending => "pending".into(),
		CommandState::Running { .. } => "running".into(),
		CommandState::Finished { status, .. } => format!("finished:{}", end_class(status)),
	}
}

pub fn end_class(end: &ProcessEnd) -> String {
	match end {
		ProcessEnd::Success => "exit:0".into(),
		ProcessEnd::ExitError(code) => format!("exit:{code}"),
		ProcessEnd::ExitSignal(sig) => format!(
			"sig:{}",
			sig.to_nix().map_or_else(|| format!("{sig:?}"), |s| (s as i32).to_string())
		),
		ProcessEnd::ExitStop(_) => "stop".into(),
		ProcessEnd::Exception(_) => "exception".into(),
		ProcessEnd::Continued => "continued".into(),
	}
}

#[derive(Debug)]
struct SimWrapper {
	n: i64,
	kid: Kid,
	tag: i64,
	rec: Recorder,
}

impl std::fmt::Debug for Recorder {
	fn fmt(&self, f: &mut std::fmt::Formatter<'_>) -> std::fmt::Result {
		f.write_str("Recorder")
	}
}

impl TokioCommandWrapper for SimWrapper {
	fn pre_spawn(&mut self, command: &mut Command, _core: &TokioCommandWrap) -> Result<()> {
		self.tag = command
			.as_std()
			.get_envs()
			.find(|(k, _)| *k == "VERIF_TAG")
			.and_then(|(_, v)| v.and_then(|v| v.to_str()).and_then(|v| v.parse().ok()))
			.unwrap_or(-1);
		if self.kid.fail {
			self.rec.rec(Ev::new("spawn_failed").n(self.n).x(self.tag));
			return Err(Error::other("injected spawn failure"));
		}
		*command = Command::new("/bin/true");
		Ok(())
	}

	fn wrap_child(
		&mut self,
		child: Box<dyn TokioChildWrapper>,
		_core: &TokioCommandWrap,
	) -> Result<Box<dyn TokioChildWrapper>> {
		self.rec.rec(Ev::new("spawn").n(self.n).x(self.tag));
		let now = Instant::now();
		Ok(Box::new(SimChild {
			inner: Some(child),
			n: self.n,
			kid: self.kid.clone(),
			rec: self.rec.clone(),
			state: Mutex::new(SimState {
				exit: self
					.kid
					.self_at
					.map(|d| (now + Duration::from_millis(d), raw_exit(self.kid.code))),
				signalled: false,
			}),
		}))
	}
}

fn raw_exit(code: i32) -> i32 {
	(code & 0xff) << 8
}

fn raw_signal(sig: i32) -> i32 {
	sig & 0x7f
}

fn status_class(raw: i32) -> String {
	if raw & 0x7f == 0 {
		format!("exit:{}", (raw >> 8) & 0xff)
	} else {
		format!("sig:{}", raw & 0x7f)
	}
}

#[derive(Debug)]
struct SimState {
	/// when the child is (or will be) gone, and with which raw wait status
	exit: Option<(Instant, i32)>,
	signalled: bool,
}

#[derive(Debug)]
pub struct SimChild {
	inner: Option<Box<dyn TokioChildWrapper>>,
	n: i64,
	kid: Kid,
	rec: Recorder,
	state: Mutex<SimState>,
}

impl SimChild {
	fn exited(&self) -> Option<i32> {
		let st = self.state.lock().unwrap();
		match st.exit {
			Some((at, raw)) if at <= Instant::now() => Some(raw),
			_ => None,
		}
	}
}

impl TokioChildWrapper for SimChild {
	fn inner(&self) -> &Child {
		self.inner.as_ref().expect("sim child inner").inner()
	}

	fn inner_mut(&mut self) -> &mut Child {
		self.inner.as_mut().expect("sim child inner").inner_mut()
	}

	fn into_inner(mut self: Box<Self>) -> Child {
		self.inner.take().expect("sim child inner").into_inner()
	}

	fn id(&self) -> Option<u32> {
		Some(1_000_000 + self.n as u32)
	}

	fn start_kill(&mut self) -> Result<()> {
		self.rec.rec(Ev::new("kill").n(self.n));
		if self.kid.kill_fail {
			return Err(Error::other("injected kill failure"));
		}
		let now = Instant::now();
		let mut st = self.state.lock().unwrap();
		match st.exit {
			Some((at, _)) if at <= now => {}
			_ => st.exit = Some((now, raw_signal(9))),
		}
		Ok(())
	}

	fn try_wait(&mut self) -> Result<Option<ExitStatus>> {
		let r = self.exited();
		self.rec.rec(
			Ev::new("try_wait")
				.n(self.n)
				.a(r.map_or("none".into(), status_class)),
		);
		Ok(r.map(ExitStatus::from_raw))
	}

	fn wait(&mut self) -> Box<dyn Future<Output = Result<ExitStatus>> + Send + '_> {
		Box::new(async move {
			loop {
				let exit = self.state.lock().unwrap().exit;
				match exit {
					None => futures::future::pending::<()>().await,
					Some((at, raw)) => {
						if at <= Instant::now() {
							self.rec
								.rec(Ev::new("wait_ret").n(self.n).a(status_class(raw)));
							return Ok(ExitStatus::from_raw(raw));
						}
						tokio::time::sleep_until(at).await;
					}
				}
			}
		})
	}

	fn signal(&self, sig: i32) -> Result<()> {
		self.rec.rec(Ev::new("signal").n(self.n).x(i64::from(sig)));
		if self.kid.sig_fail {
			return Err(Error::other("injected signal failure"));
		}
		let now = Instant::now();
		let mut st = self.state.lock().unwrap();
		if matches!(st.exit, Some((at, _)) if at <= now) {
			return Ok(());
		}
		if sig == 9 {
			st.exit = Some((now, raw_signal(9)));
		} else if !st.signalled {
			st.signalled = true;
			if let Some(d) = self.kid.sig_delay {
				let at = now + Duration::from_millis(d);
				match st.exit {
					Some((self_at, _)) if self_at <= at => {}
					_ => st.exit = Some((at, raw_signal(sig))),
				}
			}
		}
		Ok(())
	}
}

impl Drop for SimChild {
	fn drop(&mut self) {
		self.rec.rec(Ev::new("drop").n(self.n));
	}
}
