//! A pool of worker threads that runs one script at a time each - with a watchdog.
//!
//! The virtual-time drivers run every script on a single-threaded runtime with a paused clock: a
//! deadlock in the code under test (a lock taken twice, a task waiting for itself) blocks the OS thread
//! for good, and no timeout inside the runtime can fire.  So every script runs on a thread of its own
//! and the pool waits for it with a wall-clock limit; when the limit passes the script is given up, what
//! it had recorded so far is kept, and a final `hang` line is added - which no specification can explain.
//! The blocked thread is left behind (it costs nothing) and the pool goes on with the next script.

use std::{
	collections::BTreeMap,
	sync::{
		atomic::{AtomicUsize, Ordering},
		mpsc, Arc, Mutex,
	},
	time::Duration,
};

use crate::trace::{Ev, Recorder};

/// Where a script's run publishes its recorder as soon as it has one.
pub type Slot = Arc<Mutex<Option<Recorder>>>;

pub type Job<S> = Arc<dyn Fn(S, Slot) -> Vec<Ev> + Send + Sync>;

fn given_up(slot: &Slot, id: &str, why: &str) -> Vec<Ev> {
	let mut evs = slot.lock().unwrap().as_ref().map(Recorder::take).unwrap_or_default();
	if evs.is_empty() {
		evs.push(Ev::new("reset").a(id.to_string()));
	}
	let mut last = Ev::new(why);
	last.t = evs.last().map_or(0, |e| e.t);
	evs.push(last);
	evs
}

/// Runs `job` on every script with `threads` scripts in flight; results by script index.
/// `first_limit` is the wall-clock limit per script until the first one hangs, `later_limit` after that
/// (scripts in virtual time take milliseconds; once something hangs, waiting long for each is pointless).
pub fn run_pool<S>(
	scripts: Arc<Vec<S>>,
	threads: usize,
	id_of: fn(&S) -> String,
	job: Job<S>,
	first_limit: Duration,
	later_limit: Duration,
) -> BTreeMap<usize, Vec<Ev>>
where
	S: Clone + Send + Sync + 'static,
{
	let next = Arc::new(AtomicUsize::new(0));
	let hangs = Arc::new(AtomicUsize::new(0));
	let results: Arc<Mutex<BTreeMap<usize, Vec<Ev>>>> = Arc::new(Mutex::new(BTreeMap::new()));
	let mut handles = Vec::new();
	for _ in 0..threads {
		let (scripts, next, hangs, results, job) = (scripts.clone(), next.clone(), hangs.clone(), results.clone(), job.clone());
		handles.push(std::thread::spawn(move || loop {
			let i = next.fetch_add(1, Ordering::SeqCst);
			if i >= scripts.len() {
				break;
			}
			let script = scripts[i].clone();
			let id = id_of(&script);
			let slot: Slot = Arc::new(Mutex::new(None));
			let (tx, rx) = mpsc::channel();
			{
				let (slot, job) = (slot.clone(), job.clone());
				std::thread::spawn(move || {
					let r = std::panic::catch_unwind(std::panic::AssertUnwindSafe(|| job(script, slot)));
					let _ = tx.send(r);
				});
			}
			let limit = if hangs.load(Ordering::SeqCst) == 0 { first_limit } else { later_limit };
			let events = match rx.recv_timeout(limit) {
				Ok(Ok(events)) => events,
				Ok(Err(_)) => given_up(&slot, &id, "driver_panic"),
				Err(_) => {
					hangs.fetch_add(1, Ordering::SeqCst);
					given_up(&slot, &id, "hang")
				}
			};
			results.lock().unwrap().insert(i, events);
		}));
	}
	for h in handles {
		let _ = h.join();
	}
	let out = std::mem::take(&mut *results.lock().unwrap());
	out
}
