//! A child process that reports how it was started: argv (as bytes), pid, process group, session,
//! working directory and one environment variable, as JSON, into the file named by VERIF_OUT.

use std::{io::Write, os::unix::ffi::OsStrExt};

fn hex(b: &[u8]) -> String {
	b.iter().map(|x| format!("{x:02x}")).collect()
}

fn main() {
	let argv: Vec<String> = std::env::args_os().skip(1).map(|a| hex(a.as_bytes())).collect();
	let out = match std::env::var_os("VERIF_OUT") {
		Some(p) => p,
		None => return,
	};
	let pid = unsafe { libc::getpid() };
	let report = serde_json::json!({
		"argv": argv,
		"pid": pid,
		"pgid": unsafe { libc::getpgid(0) },
		"sid": unsafe { libc::getsid(0) },
		"cwd": std::env::current_dir().map(|p| p.display().to_string()).unwrap_or_default(),
		"env": std::env::var_os("VERIF_X").map(|v| hex(v.as_bytes())),
		"events_file": std::env::var_os("WATCHEXEC_EVENTS_FILE").is_some(),
	});
	let mut f = std::fs::File::create(out).expect("out file");
	f.write_all(report.to_string().as_bytes()).unwrap();
	drop(f);
	// a first child that must still be there when the control under test arrives
	if std::env::var_os("VERIF_HOLD").is_some() {
		std::thread::sleep(std::time::Duration::from_secs(20));
	}
}
