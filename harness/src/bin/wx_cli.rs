//! The watchexec command-line program, built from /repo's current tree as part of the harness (same
//! main as crates/cli/src/main.rs), for the end-to-end process tier (cliproc_driver).

use std::process::ExitCode;

fn main() -> miette::Result<ExitCode> {
	tokio::runtime::Builder::new_multi_thread()
		.enable_all()
		.build()
		.unwrap()
		.block_on(async { watchexec_cli::run().await })
}
