//! Replays event scripts against a real `Watchexec` instance (action worker, filter, debounce,
//! error hook, main task) in virtual time and records what it did.
//!
//! usage: worker_driver <scripts.ndjson> <traces.ndjson> [--threads N]

use std::{
	collections::HashMap,
	io::{BufRead, BufWriter, Write},
	sync::{Arc, Mutex},
	time::Duration,
};

use serde::Deserialize;
use tokio::time::Instant;
use verif_harness::{
	simchild::{Kid, SimFactory},
	trace::{write_events, Ev, Recorder},
};
use watchexec_supervisor::{
	command::{Command, Program},
	job::Job,
};
use watchexec::{
	error::{CriticalError, RuntimeError},
	filter::Filterer,
	Config, Watchexec,
};
use watchexec_events::{Event, Priority, Source, Tag};
use watchexec_signals::Signal;

#[derive(Clone, Debug, Deserialize)]
struct Script {
	id: String,
	cap: usize,
	ecap: usize,
	throttle: u64,
	events: Vec<Evt>,
	horizon: u64,
	#[serde(default)]
	sync_handler: bool,
	/// throttle changes made from outside the handler: (at ms, new throttle ms)
	#[serde(default)]
	throttles: Vec<(u64, u64)>,
	/// child behaviours of the jobs the handler creates, by job index
	#[serde(default)]
	jobs: Vec<Vec<Kid>>,
}

/// An operation the handler performs on a job when it sees the event that carries it.
#[derive(Clone, Debug, Deserialize)]
struct JobOp {
	job: usize,
	op: String,
	#[serde(default)]
	sig: Option<String>,
	#[serde(default)]
	grace: u64,
}

#[derive(Clone, Debug, Deserialize)]
struct Evt {
	id: i64,
	at: u64,
	prio: u8,
	verdict: String,
	#[serde(default)]
	empty: bool,
	#[serde(default)]
	hold: u64,
	#[serde(default = "none")]
	act: String,
	#[serde(default)]
	arg: u64,
	#[serde(default = "ignore")]
	onerr: String,
	/// how long the error handler takes with the error this event causes (virtual ms)
	#[serde(default)]
	errhold: u64,
	#[serde(default)]
	jobops: Vec<JobOp>,
}

fn none() -> String {
	"none".into()
}
fn ignore() -> String {
	"ignore".into()
}

fn event_id(event: &Event) -> i64 {
	event
		.metadata
		.get("verif-id")
		.and_then(|v| v.first())
		.and_then(|v| v.parse().ok())
		.unwrap_or(0)
}

#[derive(Debug)]
struct ScriptFilterer {
	rec: Recorder,
	verdicts: HashMap<i64, String>,
}

impl Filterer for ScriptFilterer {
	fn check_event(&self, event: &Event, _priority: Priority) -> Result<bool, RuntimeError> {
		let id = event_id(event);
		let v = self.verdicts.get(&id).cloned().unwrap_or_else(|| "pass".into());
		self.rec.rec(Ev::new("filter").id(id).a(v.clone()));
		match v.as_str() {
			"pass" => Ok(true),
			"reject" => Ok(false),
			_ => Err(RuntimeError::Filterer {
				kind: "verif",
				err: format!("id={id}").into(),
			}),
		}
	}
}

fn prio(p: u8) -> Priority {
	match p {
		0 => Priority::Low,
		1 => Priority::Normal,
		2 => Priority::High,
		_ => Priority::Urgent,
	}
}

async fn run_script(script: Script, slot: verif_harness::pool::Slot) -> Vec<Ev> {
	let start = Instant::now();
	let rec = Recorder::new(Arc::new(move || {
		i64::try_from(start.elapsed().as_millis()).unwrap_or(i64::MAX)
	}));
	*slot.lock().unwrap() = Some(rec.clone());
	{
		// the filesystem and keyboard workers of the same Watchexec have trace points of their own
		// (C13's alphabet); they are not part of this family's
		let inner = rec.sink();
		watchexec_supervisor::verif::set_thread_sink(Some(Arc::new(move |name, a, b| {
			if !(name.starts_with("fs_") || name == "cfg_wait") {
				inner(name, a, b);
			}
		})));
	}

	let mut reset = Ev::new("reset").a(script.id.clone());
	reset.kids = Some(
		script
			.events
			.iter()
			.map(|e| {
				serde_json::json!({"id": e.id, "prio": e.prio, "verdict": e.verdict, "empty": e.empty,
					"hold": e.hold, "act": e.act, "arg": e.arg, "errhold": e.errhold, "onerr": e.onerr})
			})
			.collect(),
	);
	reset.x = script.throttle as i64;
	reset.n = script.cap as i64;
	reset.w = script.ecap as i64;
	rec.rec(reset);

	let by_id: Arc<HashMap<i64, Evt>> =
		Arc::new(script.events.iter().map(|e| (e.id, e.clone())).collect());

	let mut config = Config::default();
	config.event_channel_size = script.cap;
	config.error_channel_size = script.ecap;
	config.throttle(Duration::from_millis(script.throttle));
	config.filterer(ScriptFilterer {
		rec: rec.clone(),
		verdicts: script.events.iter().map(|e| (e.id, e.verdict.clone())).collect(),
	});
	fn error_id(msg: &str) -> i64 {
		msg.split("id=")
			.nth(1)
			.map(|s| s.chars().take_while(char::is_ascii_digit).collect::<String>())
			.and_then(|s| s.parse().ok())
			.unwrap_or(0)
	}
	// the error handler; "replace" installs a fresh copy of itself from inside the call (the error
	// that made it do so is handled by the old one, every later error by the new one)
	fn make_error_handler(
		rec: Recorder,
		by_id: Arc<HashMap<i64, Evt>>,
		config: Arc<Mutex<Option<Arc<Watchexec>>>>,
		generation: i64,
		gen_now: Arc<std::sync::atomic::AtomicI64>,
	) -> impl Fn(watchexec::ErrorHook) + Send + Sync + 'static {
		move |hook: watchexec::ErrorHook| {
			let id = error_id(&format!("{:?}", hook.error));
			let onerr = by_id.get(&id).map_or("ignore".to_string(), |e| e.onerr.clone());
			let shown = if onerr == "replace" { "ignore" } else { onerr.as_str() };
			rec.rec(Ev::new("error").id(id).a(shown).n(generation));
			match onerr.as_str() {
				"elevate" => hook.elevate(),
				"critical" => hook.critical(CriticalError::External("verif".into())),
				"replace" => {
					if let Some(wx) = config.lock().unwrap().as_ref() {
						gen_now.store(generation + 1, std::sync::atomic::Ordering::SeqCst);
						wx.config.on_error(make_error_handler(rec.clone(), by_id.clone(), config.clone(), generation + 1, gen_now.clone()));
					}
				}
				_ => {}
			}
		}
	}
	let wx_slot: Arc<Mutex<Option<Arc<Watchexec>>>> = Arc::new(Mutex::new(None));
	let gen_now = Arc::new(std::sync::atomic::AtomicI64::new(0));
	config.on_error(make_error_handler(rec.clone(), by_id.clone(), wx_slot.clone(), 0, gen_now.clone()));
	{
		let by_id = by_id.clone();
		watchexec::verif::set_error_delay(Some(Arc::new(move |err| {
			let id = error_id(&format!("{err:?}"));
			Duration::from_millis(by_id.get(&id).map_or(0, |e| e.errhold))
		})));
	}

	let wx = Arc::new(Watchexec::with_config(config).expect("watchexec"));
	*wx_slot.lock().unwrap() = Some(wx.clone());

	// the handler: record the batch, apply the scripted actions, hold, return
	let jobs_made: Arc<Mutex<HashMap<usize, Job>>> = Arc::new(Mutex::new(HashMap::new()));
	let kept: Arc<Mutex<Vec<Job>>> = Arc::new(Mutex::new(Vec::new()));
	let job_kids = Arc::new(script.jobs.clone());
	// (re)installs the action handler; set below, called from inside the handler by "reconfig"
	type Installer = Arc<dyn Fn() + Send + Sync>;
	let reinstall: Arc<std::sync::OnceLock<Installer>> = Arc::new(std::sync::OnceLock::new());
	let handler_body: Arc<dyn Fn(&mut watchexec::action::ActionHandler) -> u64 + Send + Sync> = {
		let rec = rec.clone();
		let by_id = by_id.clone();
		let wxc = wx.clone();
		let jobs_made = jobs_made.clone();
		let kept = kept.clone();
		let reinstall = reinstall.clone();
		let (wx_slot, gen_now) = (wx_slot.clone(), gen_now.clone());
		Arc::new(move |action: &mut watchexec::action::ActionHandler| -> u64 {
			let ids: Vec<i64> = action.events.iter().map(event_id).collect();
			let mut ev = Ev::new("handler_in");
			ev.pending = Some(ids.clone());
			rec.rec(ev);
			let mut hold = 0;
			for id in &ids {
				if let Some(e) = by_id.get(id) {
					hold = hold.max(e.hold);
					for jo in &e.jobops {
						let job = {
							let mut made = jobs_made.lock().unwrap();
							if let Some(j) = made.get(&jo.job) {
								j.clone()
							} else {
								let (_, j) = action.create_job(Arc::new(Command {
									program: Program::Exec { prog: "/bin/true".into(), args: Vec::new() },
									options: Default::default(),
								}));
								let mut factory = SimFactory::new(
									rec.clone(),
									job_kids.get(jo.job).cloned().unwrap_or_default(),
								);
								factory.next = Arc::new(std::sync::atomic::AtomicI64::new((jo.job as i64) * 100));
								factory.base = (jo.job as i64) * 100;
								j.set_spawn_hook(move |cmd, ctx| factory.on_hook(0, cmd, ctx));
								made.insert(jo.job, j.clone());
								j
							}
						};
						let sig = match jo.sig.as_deref() {
							Some("INT") => Signal::Interrupt,
							Some("HUP") => Signal::Hangup,
							Some("KILL") => Signal::ForceStop,
							Some("USR1") => Signal::User1,
							_ => Signal::Terminate,
						};
						let grace = Duration::from_millis(jo.grace);
						rec.rec(Ev::new("jobop").n(jo.job as i64).a(jo.op.clone()).x(jo.grace as i64));
						match jo.op.as_str() {
							"create" => {}
							"start" => drop(job.start()),
							"stop" => drop(job.stop()),
							"restart" => drop(job.restart()),
							"try_restart" => drop(job.try_restart()),
							"stop_with_signal" => drop(job.stop_with_signal(sig, grace)),
							"restart_with_signal" => drop(job.restart_with_signal(sig, grace)),
							"try_restart_with_signal" => drop(job.try_restart_with_signal(sig, grace)),
							"signal" => drop(job.signal(sig)),
							"delete" => drop(job.delete()),
							"delete_now" => drop(job.delete_now()),
							"to_wait" => drop(job.to_wait()),
							"run" => drop(job.run(|_| {})),
							"keep_clone" => kept.lock().unwrap().push(job.clone()),
							"forget" => {
								jobs_made.lock().unwrap().remove(&jo.job);
							}
							other => panic!("unknown job op {other}"),
						}
					}
					match e.act.as_str() {
						"throttle" => {
							wxc.config.throttle(Duration::from_millis(e.arg));
							rec.rec(Ev::new("throttle").x(e.arg as i64));
						}
						"reconfig" => {
							// C13: reconfiguring from inside a handler must neither deadlock nor disturb
							// the invocation in progress
							wxc.config.pathset(Vec::<watchexec::WatchedPath>::new());
							wxc.config.file_watcher(watchexec::sources::fs::Watcher::Native);
							wxc.config.keyboard_events(false);
							wxc.config.throttle(Duration::from_millis(e.arg));
							// (an error handler like the one installed: same generation, later errors go to it)
							wxc.config.on_error(make_error_handler(
								rec.clone(),
								by_id.clone(),
								wx_slot.clone(),
								gen_now.load(std::sync::atomic::Ordering::SeqCst),
								gen_now.clone(),
							));
							// ... the action handler itself included: the invocation in progress goes on
							if let Some(install) = reinstall.get() {
								install();
							}
							rec.rec(Ev::new("throttle").x(e.arg as i64));
						}
						"quit" => {
							rec.rec(Ev::new("ask_quit").x(0));
							action.quit();
						}
						"gquit" => {
							rec.rec(Ev::new("ask_quit").x(1).n(e.arg as i64));
							action.quit_gracefully(Signal::Terminate, Duration::from_millis(e.arg));
						}
						_ => {}
					}
				}
			}
			hold
		})
	};
	let install: Installer = {
		let (rec, wxc, handler_body, sync) = (rec.clone(), wx.clone(), handler_body.clone(), script.sync_handler);
		Arc::new(move || {
			let (rec, handler_body) = (rec.clone(), handler_body.clone());
			if sync {
				wxc.config.on_action(move |mut action| {
					let _ = handler_body(&mut action);
					rec.rec(Ev::new("handler_out"));
					action
				});
			} else {
				wxc.config.on_action_async(move |mut action| {
					let hold = handler_body(&mut action);
					let rec = rec.clone();
					Box::new(async move {
						if hold > 0 {
							tokio::time::sleep(Duration::from_millis(hold)).await;
						}
						rec.rec(Ev::new("handler_out"));
						action
					})
				});
			}
		})
	};
	let _ = reinstall.set(install.clone());
	install();

	let main = wx.main();
	{
		let rec = rec.clone();
		tokio::spawn(async move {
			let how = match main.await {
				Ok(Ok(())) => "ok".to_string(),
				Ok(Err(e)) => format!("err:{}", match e {
					CriticalError::Elevated { .. } => "elevated",
					CriticalError::External(_) => "external",
					_ => "other",
				}),
				Err(e) if e.is_panic() => "panicked".into(),
				Err(_) => "cancelled".into(),
			};
			rec.rec(Ev::new("main_end").a(how));
		});
	}

	for (at, d) in script.throttles.clone() {
		let wx = wx.clone();
		let rec = rec.clone();
		tokio::spawn(async move {
			tokio::time::sleep_until(start + Duration::from_millis(at)).await;
			wx.config.throttle(Duration::from_millis(d));
			rec.rec(Ev::new("throttle").x(d as i64));
		});
	}

	let mut events = script.events.clone();
	events.sort_by_key(|e| e.at);
	for e in events {
		let at = start + Duration::from_millis(e.at);
		if at > Instant::now() {
			tokio::time::sleep_until(at).await;
		}
		let wx = wx.clone();
		let rec = rec.clone();
		tokio::spawn(async move {
			let mut event = Event::default();
			if !e.empty {
				event.tags.push(Tag::Source(Source::Internal));
			}
			event.metadata.insert("verif-id".into(), vec![e.id.to_string()]);
			rec.rec(Ev::new("send").id(e.id).x(i64::from(e.prio)));
			match wx.send_event(event, prio(e.prio)).await {
				Ok(()) => rec.rec(Ev::new("sent").id(e.id)),
				Err(_) => rec.rec(Ev::new("send_err").id(e.id)),
			}
		});
	}

	let end = start + Duration::from_millis(script.horizon);
	if end > Instant::now() {
		tokio::time::sleep_until(end).await;
	}
	tokio::task::yield_now().await;
	rec.rec(Ev::new("end"));
	rec.stop();
	watchexec_supervisor::verif::set_thread_sink(None);
	watchexec::verif::set_error_delay(None);
	*wx_slot.lock().unwrap() = None;
	rec.take()
}

fn main() {
	let args: Vec<String> = std::env::args().collect();
	let scripts_path = &args[1];
	let out_path = &args[2];
	let mut threads = 8usize;
	if args.len() > 4 && args[3] == "--threads" {
		threads = args[4].parse().unwrap();
	}
	std::panic::set_hook(Box::new(|_| {}));

	let file = std::fs::File::open(scripts_path).expect("scripts file");
	let scripts: Vec<Script> = std::io::BufReader::new(file)
		.lines()
		.map(|l| l.unwrap())
		.filter(|l| !l.trim().is_empty())
		.map(|l| serde_json::from_str(&l).expect("script json"))
		.collect();
	let scripts = Arc::new(scripts);
	let results = verif_harness::pool::run_pool(
		scripts,
		threads,
		|s: &Script| s.id.clone(),
		Arc::new(|script: Script, slot| {
			let rt = tokio::runtime::Builder::new_current_thread()
				.enable_all()
				.start_paused(true)
				.build()
				.unwrap();
			let events = rt.block_on(run_script(script, slot));
			drop(rt);
			events
		}),
		Duration::from_secs(60),
		Duration::from_secs(8),
	);
	let mut out = BufWriter::new(std::fs::File::create(out_path).expect("out file"));
	for events in results.values() {
		write_events(&mut out, events).unwrap();
	}
	out.flush().unwrap();
	// threads blocked for good by a deadlock in the code under test are left behind
	std::process::exit(0);
}
