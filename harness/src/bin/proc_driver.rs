//! Real-process tier for the quit (C08): a real `Watchexec`, real commands (`/bin/sh -c ...`) in
//! real time.  The handler creates and starts the scripted jobs on the first event and requests the
//! scripted quit on the second; the driver then records how the main task ended and which of the
//! processes the jobs started (found by an environment marker in /proc) are still alive.
//!
//! Nothing here is judged against wall-clock deadlines except a generous "did it end at all" limit.
//!
//! usage: proc_driver <scripts.ndjson> <traces.ndjson> [--threads N]

use std::{
	collections::BTreeMap,
	io::{BufRead, BufWriter, Write},
	sync::{
		atomic::{AtomicBool, AtomicUsize, Ordering},
		Arc, Mutex,
	},
	time::{Duration, Instant},
};

use serde::Deserialize;
use verif_harness::trace::{write_events, Ev};
use watchexec::{Config, Watchexec};
use watchexec_events::{Event, Priority, Source, Tag};
use watchexec_signals::Signal;
use watchexec_supervisor::{
	command::{Command, Program, SpawnOptions},
	job::Job,
};

#[derive(Clone, Debug, Deserialize)]
struct JobSpec {
	/// "group" | "session" | "none"
	wrap: String,
	/// behaviour class of the command, see `script_for`
	cls: String,
	/// what the handler does with the job before the quit: "start" | "none" | "stop" | "gstop"
	#[serde(default = "start")]
	pre: String,
}

fn start() -> String {
	"start".into()
}

#[derive(Clone, Debug, Deserialize)]
struct Script {
	id: String,
	/// "graceful" | "abort"
	manner: String,
	#[serde(default = "term")]
	sig: String,
	#[serde(default)]
	grace_ms: u64,
	jobs: Vec<JobSpec>,
}

fn term() -> String {
	"TERM".into()
}

/// (shell text, readiness tokens the command writes once its signal dispositions are in place)
fn script_for(cls: &str) -> (&'static str, &'static [&'static str]) {
	match cls {
		// the command itself dies on the signal
		"dies" => (": > $VERIF_READY.l; exec sleep 60", &["l"]),
		// the command ignores the signal
		"ignores" => ("trap '' TERM INT HUP; : > $VERIF_READY.l; exec sleep 60", &["l"]),
		// a leader that dies on the signal, with a child that dies on it too
		"fork_dies" => ("sleep 60 & : > $VERIF_READY.l; wait", &["l"]),
		// a leader that dies on the signal, with a child that ignores it
		"fork_ignores" => (
			"(trap '' TERM INT HUP; : > $VERIF_READY.m; exec sleep 60) & : > $VERIF_READY.l; wait",
			&["l", "m"],
		),
		// a leader that ignores the signal, with a child that dies on it
		"ignores_fork_dies" => (
			"sleep 60 & trap '' TERM INT HUP; : > $VERIF_READY.l; wait; exec sleep 60",
			&["l"],
		),
		// a leader that ends by itself at once and leaves a child behind
		"daemon" => ("sleep 60 & : > $VERIF_READY.l; exit 0", &["l"]),
		_ => (": > $VERIF_READY.l; exec sleep 60", &["l"]),
	}
}

fn at(mut e: Ev, t: i64) -> Ev {
	e.t = t;
	e
}

fn sig_of(s: &str) -> Signal {
	match s {
		"INT" => Signal::Interrupt,
		"HUP" => Signal::Hangup,
		"KILL" => Signal::ForceStop,
		_ => Signal::Terminate,
	}
}

/// Processes (pid, is_leader_pid_of_a_group, state char) whose environment holds the marker.
fn marked(marker: &str) -> Vec<(i32, char, i32)> {
	let mut out = Vec::new();
	let needle = format!("VERIF_MARK={marker}");
	let Ok(dir) = std::fs::read_dir("/proc") else { return out };
	for ent in dir.flatten() {
		let name = ent.file_name();
		let Some(pid) = name.to_str().and_then(|s| s.parse::<i32>().ok()) else { continue };
		let Ok(env) = std::fs::read(format!("/proc/{pid}/environ")) else { continue };
		if !env.split(|b| *b == 0).any(|kv| kv == needle.as_bytes()) {
			continue;
		}
		let Ok(stat) = std::fs::read_to_string(format!("/proc/{pid}/stat")) else { continue };
		// pid (comm) state ppid pgrp ...
		let Some(rest) = stat.rfind(')').map(|i| &stat[i + 1..]) else { continue };
		let mut it = rest.split_whitespace();
		let state = it.next().and_then(|s| s.chars().next()).unwrap_or('?');
		let _ppid = it.next();
		let pgrp = it.next().and_then(|s| s.parse::<i32>().ok()).unwrap_or(0);
		out.push((pid, state, pgrp));
	}
	out
}

/// A fatal signal that has been sent but not yet acted upon: the process is as good as dead.
fn kill_pending(pid: i32) -> bool {
	let Ok(status) = std::fs::read_to_string(format!("/proc/{pid}/status")) else { return true };
	let mask = |key: &str| {
		status
			.lines()
			.filter(|l| l.starts_with(key))
			.filter_map(|l| u64::from_str_radix(l[key.len()..].trim(), 16).ok())
			.fold(0u64, |a, b| a | b)
	};
	let pending = mask("SigPnd:") | mask("ShdPnd:");
	let deaf = mask("SigIgn:") | mask("SigCgt:") | mask("SigBlk:");
	let bit = |s: u32| 1u64 << (s - 1);
	pending & bit(9) != 0 || [1u32, 2, 15].iter().any(|s| pending & bit(*s) != 0 && deaf & bit(*s) == 0)
}

fn alive(marker: &str) -> Vec<(i32, i32)> {
	marked(marker)
		.into_iter()
		.filter(|(p, st, _)| *st != 'Z' && *st != 'X' && !kill_pending(*p))
		.map(|(p, _, g)| (p, g))
		.collect()
}

async fn run_script(s: Script) -> Vec<Ev> {
	let t0 = Instant::now();
	let ms = move || t0.elapsed().as_millis() as i64;
	let mut evs = vec![Ev::new("reset")
		.a(s.id.clone())
		.b(s.manner.clone())
		.x(s.grace_ms as i64)
		.n(s.jobs.len() as i64)];
	for (i, j) in s.jobs.iter().enumerate() {
		evs.push(Ev::new("job").n(i as i64 + 1).a(j.wrap.clone()).b(j.cls.clone()).w(match j.pre.as_str() {
			"none" => 0,
			"start" => 1,
			"stop" => 2,
			_ => 3,
		}));
	}

	let tmp = tempfile::tempdir().expect("tempdir");
	let uniq = format!("{}_{}", std::process::id(), s.id);
	let markers: Vec<String> = (0..s.jobs.len()).map(|i| format!("{uniq}_{i}")).collect();
	let created = Arc::new(AtomicBool::new(false));
	let jobs_out: Arc<Mutex<Vec<Job>>> = Arc::new(Mutex::new(Vec::new()));

	let config = Config::default();
	config.throttle(Duration::from_millis(1));
	{
		let (s, created, markers, jobs_out) = (s.clone(), created.clone(), markers.clone(), jobs_out.clone());
		let ready_dir = tmp.path().to_owned();
		config.on_action(move |mut action| {
			let quit_now = action.events.iter().any(|e| e.metadata.contains_key("quit"));
			let create = action.events.iter().any(|e| e.metadata.contains_key("create"));
			if create && !created.swap(true, Ordering::SeqCst) {
				for (i, j) in s.jobs.iter().enumerate() {
					let (text, _) = script_for(&j.cls);
					let cmd = Arc::new(Command {
						program: Program::Exec {
							prog: "/bin/sh".into(),
							args: vec!["-c".into(), text.into()],
						},
						options: SpawnOptions {
							grouped: j.wrap == "group",
							session: j.wrap == "session",
							..Default::default()
						},
					});
					let (_, job) = action.create_job(cmd);
					let marker = markers[i].clone();
					let ready = ready_dir.join(format!("ready{i}"));
					job.set_spawn_hook(move |cmd, _| {
						cmd.command_mut().env("VERIF_MARK", &marker).env("VERIF_READY", &ready);
					});
					match j.pre.as_str() {
						"none" => {}
						"stop" => {
							job.start();
							job.stop();
						}
						_ => {
							job.start();
						}
					}
					jobs_out.lock().unwrap().push(job);
				}
			}
			if quit_now {
				if s.manner == "graceful" {
					action.quit_gracefully(sig_of(&s.sig), Duration::from_millis(s.grace_ms));
				} else {
					action.quit();
				}
			}
			action
		});
	}
	let wx = match Watchexec::with_config(config) {
		Ok(wx) => wx,
		Err(e) => {
			evs.push(Ev::new("driver_error").a(e.to_string()));
			return evs;
		}
	};
	let main = wx.main();

	let mut ev = Event { tags: vec![Tag::Source(Source::Internal)], metadata: Default::default() };
	ev.metadata.insert("create".into(), vec!["1".into()]);
	let _ = wx.send_event(ev, Priority::Normal).await;

	// wait until every started command has its signal dispositions in place
	let deadline = Instant::now() + Duration::from_secs(20);
	let mut settled = false;
	while Instant::now() < deadline {
		tokio::time::sleep(Duration::from_millis(10)).await;
		if !created.load(Ordering::SeqCst) {
			continue;
		}
		settled = s.jobs.iter().enumerate().all(|(i, j)| {
			!(j.pre == "start" || j.pre == "gstop")
				|| script_for(&j.cls).1.iter().all(|tok| tmp.path().join(format!("ready{i}.{tok}")).exists())
		});
		if settled {
			break;
		}
	}
	for (i, j) in s.jobs.iter().enumerate() {
		if j.pre == "gstop" {
			jobs_out.lock().unwrap()[i].stop_with_signal(sig_of(&s.sig), Duration::from_millis(s.grace_ms));
		}
		let have = alive(&markers[i]);
		let grouped = have.iter().filter(|(p, g)| have.iter().any(|(q, _)| q == g) && p != g).count();
		evs.push(at(Ev::new("started"), ms()).n(i as i64 + 1).x(have.len() as i64).w(grouped as i64));
	}
	if !settled {
		evs.push(Ev::new("driver_error").a("commands did not settle"));
	}

	let mut ev = Event { tags: vec![Tag::Source(Source::Internal)], metadata: Default::default() };
	ev.metadata.insert("quit".into(), vec!["1".into()]);
	let tq = Instant::now();
	evs.push(at(Ev::new("quit"), ms()).x(i64::from(s.manner == "graceful")));
	let _ = wx.send_event(ev, Priority::Normal).await;

	let limit = Duration::from_millis(s.grace_ms) + Duration::from_secs(20);
	let ended = tokio::time::timeout(limit, main).await;
	let took = tq.elapsed().as_millis() as i64;
	match ended {
		Ok(Ok(Ok(()))) => evs.push(at(Ev::new("main_end"), ms()).a("ok").x(took)),
		Ok(Ok(Err(e))) => evs.push(at(Ev::new("main_end"), ms()).a(format!("err:{e}")).x(took)),
		Ok(Err(e)) => evs.push(at(Ev::new("main_end"), ms()).a(format!("join:{e}")).x(took)),
		Err(_) => evs.push(at(Ev::new("main_hang"), ms()).x(took)),
	}
	drop(wx);
	jobs_out.lock().unwrap().clear();

	// a SIGKILL takes a moment to take effect: survivors are what is still there after a while
	let mut left: Vec<Vec<(i32, i32)>> = Vec::new();
	for _ in 0..25 {
		left = markers.iter().map(|m| alive(m)).collect();
		if left.iter().all(Vec::is_empty) {
			break;
		}
		tokio::time::sleep(Duration::from_millis(40)).await;
	}
	for (i, l) in left.iter().enumerate() {
		evs.push(at(Ev::new("survivors"), ms()).n(i as i64 + 1).x(l.len() as i64));
		for (pid, _) in l {
			unsafe {
				libc::kill(*pid, libc::SIGKILL);
			}
		}
	}
	evs.push(at(Ev::new("end"), ms()));
	evs
}

fn main() {
	let args: Vec<String> = std::env::args().collect();
	let (sp, out_path) = (&args[1], &args[2]);
	let threads = args
		.iter()
		.position(|a| a == "--threads")
		.and_then(|i| args.get(i + 1))
		.and_then(|s| s.parse().ok())
		.unwrap_or(4usize);
	let scripts: Vec<Script> = std::io::BufReader::new(std::fs::File::open(sp).expect("scripts"))
		.lines()
		.map_while(Result::ok)
		.filter(|l| !l.trim().is_empty())
		.map(|l| serde_json::from_str(&l).expect("script json"))
		.collect();
	let scripts = Arc::new(scripts);
	let next = Arc::new(AtomicUsize::new(0));
	let results: Arc<Mutex<BTreeMap<usize, Vec<Ev>>>> = Arc::new(Mutex::new(BTreeMap::new()));
	let mut handles = Vec::new();
	for _ in 0..threads {
		let (scripts, next, results) = (scripts.clone(), next.clone(), results.clone());
		handles.push(std::thread::spawn(move || loop {
			let i = next.fetch_add(1, Ordering::SeqCst);
			if i >= scripts.len() {
				break;
			}
			let script = scripts[i].clone();
			let rt = tokio::runtime::Builder::new_current_thread().enable_all().build().unwrap();
			let events = std::panic::catch_unwind(std::panic::AssertUnwindSafe(|| rt.block_on(run_script(script))))
				.unwrap_or_else(|_| vec![Ev::new("driver_panic").a(scripts[i].id.clone())]);
			drop(rt);
			results.lock().unwrap().insert(i, events);
		}));
	}
	for h in handles {
		h.join().unwrap();
	}
	let mut out = BufWriter::new(std::fs::File::create(out_path).expect("out file"));
	for events in results.lock().unwrap().values() {
		write_events(&mut out, events).unwrap();
	}
	out.flush().unwrap();
}
