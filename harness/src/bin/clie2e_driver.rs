//! End-to-end tier for the on-busy policy (C05): the real command-line program (wx_cli = the CLI's own
//! run(), including the initial event it sends unless --postpone) watching a temporary directory and
//! supervising a real command that writes its own log: `start <pid> <ms>`, `sig <pid> <name> <ms>`,
//! `end <pid> <ms>`.  The driver touches a file in the watched directory at scripted moments, finally
//! sends SIGTERM to the CLI, and turns the command's log and its own notes into a trace for CliE2EMon.tla.
//!
//! usage: clie2e_driver <scripts.ndjson> <traces.ndjson> [--threads N]

use std::{
	collections::BTreeMap,
	io::{BufRead, BufWriter, Write},
	process::{Command, Stdio},
	sync::{
		atomic::{AtomicUsize, Ordering},
		Arc, Mutex,
	},
	time::{Duration, Instant, SystemTime, UNIX_EPOCH},
};

use serde::Deserialize;
use verif_harness::trace::{write_events, Ev};

#[derive(Clone, Debug, Deserialize)]
struct Script {
	id: String,
	/// "do-nothing" | "queue" | "restart" | "signal"
	mode: String,
	/// extra arguments selecting the mode (long or short form)
	argv: Vec<String>,
	postpone: bool,
	/// how long one run of the command takes (ms); 0 = until it is stopped
	run_ms: u64,
	/// when to touch a file in the watched directory (ms after the CLI was started)
	changes: Vec<u64>,
	/// when to stop the scenario
	until: u64,
}

fn now_ms() -> i64 {
	SystemTime::now().duration_since(UNIX_EPOCH).unwrap().as_millis() as i64
}

fn run_script(s: &Script) -> Vec<Ev> {
	let tmp = tempfile::tempdir().expect("tempdir");
	let w = tmp.path().join("w");
	std::fs::create_dir_all(&w).unwrap();
	let log = tmp.path().join("log");
	std::fs::write(&log, b"").unwrap();
	let cmd_path = tmp.path().join("cmd.sh");
	// the supervised command: logs its start, the signals it gets (USR1 / HUP: goes on; TERM / INT: ends), its end
	let body = format!(
		"#!/bin/sh\nL={log}\nms() {{ date +%s%3N; }}\necho \"start $$ $(ms)\" >> $L\n\
		 trap 'echo \"sig $$ USR1 $(ms)\" >> $L' USR1\ntrap 'echo \"sig $$ HUP $(ms)\" >> $L' HUP\n\
		 trap 'echo \"sig $$ TERM $(ms)\" >> $L; echo \"end $$ $(ms)\" >> $L; exit 0' TERM\n\
		 trap 'echo \"sig $$ INT $(ms)\" >> $L; echo \"end $$ $(ms)\" >> $L; exit 0' INT\n\
		 i=0\nwhile [ {limit} -eq 0 ] || [ $i -lt {limit} ]; do sleep 0.02; i=$((i+1)); done\necho \"end $$ $(ms)\" >> $L\n",
		log = log.display(),
		limit = s.run_ms / 20
	);
	std::fs::write(&cmd_path, body).unwrap();
	let wx = std::env::current_exe().unwrap().parent().unwrap().join("wx_cli");
	let mut cmd = Command::new(wx);
	cmd.current_dir(&w).arg("-w").arg(&w).arg("--stop-timeout").arg("2s").arg("--debounce").arg("30ms");
	for a in &s.argv {
		cmd.arg(a);
	}
	if s.postpone {
		cmd.arg("--postpone");
	}
	cmd.arg("-n").arg("--").arg("/bin/sh").arg(&cmd_path);
	cmd.stdin(Stdio::null()).stdout(Stdio::null()).stderr(Stdio::null());
	let t0 = now_ms();
	let started = Instant::now();
	let mut evs = vec![Ev::new("reset").a(s.id.clone()).b(s.mode.clone()).w(i64::from(s.postpone)).x(s.run_ms as i64)];
	let mut child = match cmd.spawn() {
		Ok(c) => c,
		Err(e) => {
			evs.push(Ev::new("driver_error").a(format!("cannot start the CLI: {e}")));
			return evs;
		}
	};
	let mut notes: Vec<(i64, Ev)> = vec![(0, Ev::new("cli_start"))];
	// the scripted moments are relative to the first `start` line of the command (with --postpone: the
	// first change comes first, the rest are relative to the run it starts), so that a slow machine shifts
	// everything together
	let wait_first_start = |log: &std::path::Path| {
		let limit = Instant::now() + Duration::from_secs(15);
		while Instant::now() < limit {
			if std::fs::read_to_string(log).map_or(false, |t| t.lines().any(|l| l.starts_with("start "))) {
				return;
			}
			std::thread::sleep(Duration::from_millis(5));
		}
	};
	let mut base = started;
	let mut k0 = 0;
	if s.postpone {
		if let Some(at) = s.changes.first() {
			let target = Duration::from_millis(*at);
			if started.elapsed() < target {
				std::thread::sleep(target - started.elapsed());
			}
			let t = now_ms() - t0;
			std::fs::write(w.join("f"), "0").unwrap();
			notes.push((t, Ev::new("change").n(1)));
			k0 = 1;
		}
	}
	if !s.postpone || k0 == 1 {
		wait_first_start(&log);
		base = Instant::now();
	}
	let first_at = if k0 == 1 { s.changes[0] } else { 0 };
	for (k, at) in s.changes.iter().enumerate().skip(k0) {
		let target = Duration::from_millis(*at - first_at);
		if base.elapsed() < target {
			std::thread::sleep(target - base.elapsed());
		}
		let t = now_ms() - t0;
		std::fs::write(w.join("f"), format!("{k}")).unwrap();
		notes.push((t, Ev::new("change").n(k as i64 + 1)));
	}
	let target = Duration::from_millis(s.until - first_at);
	if base.elapsed() < target {
		std::thread::sleep(target - base.elapsed());
	}
	let tq = now_ms() - t0;
	notes.push((tq, Ev::new("stop")));
	unsafe {
		libc::kill(child.id() as i32, libc::SIGTERM);
	}
	let limit = Instant::now() + Duration::from_secs(15);
	let mut exited = false;
	while Instant::now() < limit {
		if let Ok(Some(_)) = child.try_wait() {
			exited = true;
			break;
		}
		std::thread::sleep(Duration::from_millis(5));
	}
	if !exited {
		let _ = child.kill();
		let _ = child.wait();
	}
	notes.push((now_ms() - t0, Ev::new(if exited { "cli_exit" } else { "cli_hang" })));
	// the command's own log
	let text = std::fs::read_to_string(&log).unwrap_or_default();
	let mut pids: Vec<i64> = Vec::new();
	for line in text.lines() {
		let f: Vec<&str> = line.split_whitespace().collect();
		let (Some(kind), Some(pid)) = (f.first(), f.get(1).and_then(|p| p.parse::<i64>().ok())) else { continue };
		let run = match pids.iter().position(|p| *p == pid) {
			Some(i) => i as i64 + 1,
			None => {
				pids.push(pid);
				pids.len() as i64
			}
		};
		match (*kind, f.len()) {
			("start", 3) => notes.push((f[2].parse::<i64>().unwrap_or(0) - t0, Ev::new("run_start").n(run))),
			("end", 3) => notes.push((f[2].parse::<i64>().unwrap_or(0) - t0, Ev::new("run_end").n(run))),
			("sig", 4) => notes.push((f[3].parse::<i64>().unwrap_or(0) - t0, Ev::new("sig").n(run).a(f[2]))),
			_ => {}
		}
	}
	// one timeline: by time, the command's lines of one instant in the order it wrote them
	notes.sort_by_key(|(t, _)| *t);
	for (t, mut e) in notes {
		e.t = t;
		evs.push(e);
	}
	evs.push(Ev::new("end"));
	evs
}

fn main() {
	let args: Vec<String> = std::env::args().collect();
	let (sp, out_path) = (&args[1], &args[2]);
	let threads = args.iter().position(|a| a == "--threads").and_then(|i| args.get(i + 1)).and_then(|s| s.parse().ok()).unwrap_or(4usize);
	let scripts: Vec<Script> = std::io::BufReader::new(std::fs::File::open(sp).expect("scripts"))
		.lines()
		.map_while(Result::ok)
		.filter(|l| !l.trim().is_empty())
		.map(|l| serde_json::from_str(&l).expect("script json"))
		.collect();
	let scripts = Arc::new(scripts);
	let next = Arc::new(AtomicUsize::new(0));
	let results: Arc<Mutex<BTreeMap<usize, Vec<Ev>>>> = Arc::new(Mutex::new(BTreeMap::new()));
	let mut handles = Vec::new();
	for _ in 0..threads {
		let (scripts, next, results) = (scripts.clone(), next.clone(), results.clone());
		handles.push(std::thread::spawn(move || loop {
			let i = next.fetch_add(1, Ordering::SeqCst);
			if i >= scripts.len() {
				break;
			}
			let events = run_script(&scripts[i]);
			results.lock().unwrap().insert(i, events);
		}));
	}
	for h in handles {
		h.join().unwrap();
	}
	let mut out = BufWriter::new(std::fs::File::create(out_path).expect("out file"));
	for events in results.lock().unwrap().values() {
		write_events(&mut out, events).unwrap();
	}
	out.flush().unwrap();
}
