//! Concurrent senders on a multi-threaded runtime (C04, C10): one job, several sender threads that each
//! hold a clone of the handle and issue their own sequence of controls, jittered by seeded spins, while
//! the job task runs on tokio's multi-threaded scheduler in real time.
//!
//! A sender records `send_begin` before calling the Job method and `send_end` after it has returned
//! (the control is put into its queue somewhere in between); the task's side is recorded by the
//! cfg(watchexec_verif) trace points (dequeue with the control's flag, flag raises) and by the simulated
//! child (spawn / signal / kill / wait).  One lock orders all lines.  JobMtMon.tla judges the result.
//!
//! Only single-control operations are used (start, stop, signal, run, try_restart, to_wait), so that
//! every dequeue can be attributed to a ticket; a final delete_now ends the scenario.
//!
//! usage: jobmt_driver <scripts.ndjson> <traces.ndjson>

use std::{
	io::{BufRead, BufWriter, Write},
	sync::{Arc, Barrier, Mutex},
	time::{Duration, Instant},
};

use serde::Deserialize;
use verif_harness::{
	simchild::{Kid, SimFactory},
	trace::{write_events, Ev, Recorder},
};
use watchexec_signals::Signal;
use watchexec_supervisor::{
	command::{Command, Program},
	job::{start_job, Ticket},
};

#[derive(Clone, Debug, Deserialize)]
struct Script {
	id: String,
	seed: u64,
	kids: Vec<Kid>,
	/// per sender: the operations it issues, in order
	senders: Vec<Vec<String>>,
}

fn spin(n: u64) {
	for i in 0..n {
		std::hint::black_box(i);
	}
}

fn xorshift(s: &mut u64) -> u64 {
	*s ^= *s << 13;
	*s ^= *s >> 7;
	*s ^= *s << 17;
	*s
}

fn prio(op: &str) -> &'static str {
	match op {
		"to_wait" => "H",
		"delete_now" => "U",
		_ => "N",
	}
}

fn run_script(script: &Script, rt: &tokio::runtime::Runtime) -> Vec<Ev> {
	let start = Instant::now();
	let rec = Recorder::new(Arc::new(move || i64::try_from(start.elapsed().as_micros()).unwrap_or(i64::MAX)));
	watchexec_supervisor::verif::set_global_sink(Some({
		let inner = rec.sink();
		Arc::new(move |name, a, b| {
			if !name.starts_with("flag_") {
				inner(name, a, b);
			}
		})
	}));
	rec.rec(Ev::new("reset").a(script.id.clone()).n(script.senders.len() as i64));

	let factory = SimFactory::new(rec.clone(), script.kids.clone());
	let (job, task) = {
		let _guard = rt.enter();
		start_job(Arc::new(Command {
			program: Program::Exec { prog: "/bin/true".into(), args: Vec::new() },
			options: Default::default(),
		}))
	};
	// every ticket stays alive until the events have been taken: flag addresses identify controls
	let keep: Arc<Mutex<Vec<Ticket>>> = Arc::new(Mutex::new(Vec::new()));
	{
		let factory = factory.clone();
		let t = job.set_spawn_hook(move |cmd, ctx| factory.on_hook(0, cmd, ctx));
		keep.lock().unwrap().push(t.clone());
		rt.block_on(t);
	}

	let barrier = Arc::new(Barrier::new(script.senders.len()));
	let mut handles = Vec::new();
	for (si, ops) in script.senders.iter().enumerate() {
		let (job, rec, keep, barrier, ops) = (job.clone(), rec.clone(), keep.clone(), barrier.clone(), ops.clone());
		let mut rng = script.seed.wrapping_mul(0x9E37_79B9_7F4A_7C15).wrapping_add(si as u64 + 1) | 1;
		let handle = rt.handle().clone();
		handles.push(std::thread::spawn(move || {
			barrier.wait();
			let mut mine = Vec::new();
			for (k, op) in ops.iter().enumerate() {
				spin(xorshift(&mut rng) % 4000);
				let id = (si as i64 + 1) * 1000 + k as i64 + 1;
				rec.rec(Ev::new("send_begin").id(id).n(si as i64 + 1).x(k as i64 + 1).a(op.clone()).b(prio(op)));
				let ticket = match op.as_str() {
					"start" => job.start(),
					"stop" => job.stop(),
					"signal" => job.signal(Signal::User1),
					"run" => job.run(|_| {}),
					"try_restart" => job.try_restart(),
					"to_wait" => job.to_wait(),
					other => panic!("unknown op {other}"),
				};
				let (gone, done) = ticket.verif_ids();
				rec.map_flag(done, id);
				rec.map_flag(gone, -1);
				rec.rec(Ev::new("send_end").id(id).n(si as i64 + 1));
				mine.push((id, ticket.clone()));
				keep.lock().unwrap().push(ticket);
			}
			// every ticket of this sender must resolve (to_wait ones: when the job ends at the latest)
			let _guard = handle.enter();
			mine
		}));
	}
	let mut tickets: Vec<(i64, Ticket)> = Vec::new();
	for h in handles {
		if let Ok(m) = h.join() {
			tickets.extend(m);
		}
	}
	// let the task drain what was sent, then end the job
	std::thread::sleep(Duration::from_millis(12));
	rec.rec(Ev::new("send_begin").id(9001).n(0).x(1).a("delete_now").b("U"));
	let last = job.delete_now();
	let (gone, done) = last.verif_ids();
	rec.map_flag(done, 9001);
	rec.map_flag(gone, -1);
	rec.rec(Ev::new("send_end").id(9001).n(0));
	tickets.push((9001, last.clone()));
	keep.lock().unwrap().push(last);

	for (id, t) in tickets {
		let ok = rt.block_on(async { tokio::time::timeout(Duration::from_secs(5), t).await.is_ok() });
		rec.rec(Ev::new(if ok { "resolved" } else { "unresolved" }).id(id));
	}
	let ended = rt.block_on(async { tokio::time::timeout(Duration::from_secs(5), task).await });
	rec.rec(Ev::new("task_end").a(match ended {
		Ok(Ok(())) => "ok",
		Ok(Err(_)) => "panicked",
		Err(_) => "hung",
	}));
	rec.rec(Ev::new("end"));
	rec.stop();
	watchexec_supervisor::verif::set_global_sink(None);
	drop(job);
	let events = rec.take_resolving();
	drop(keep);
	events
}

fn main() {
	let args: Vec<String> = std::env::args().collect();
	let (sp, out_path) = (&args[1], &args[2]);
	std::panic::set_hook(Box::new(|_| {}));
	let scripts: Vec<Script> = std::io::BufReader::new(std::fs::File::open(sp).expect("scripts"))
		.lines()
		.map_while(Result::ok)
		.filter(|l| !l.trim().is_empty())
		.map(|l| serde_json::from_str(&l).expect("script json"))
		.collect();
	let rt = tokio::runtime::Builder::new_multi_thread().worker_threads(4).enable_all().build().unwrap();
	let mut out = BufWriter::new(std::fs::File::create(out_path).expect("out file"));
	// one scenario at a time: the trace points go through the process-wide sink
	for s in &scripts {
		let events = run_script(s, &rt);
		write_events(&mut out, &events).unwrap();
	}
	out.flush().unwrap();
}
