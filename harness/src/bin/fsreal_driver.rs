//! Real filesystem tier (C01): a real `Watchexec` watching a temporary directory with the native or the
//! poll watcher while scripted file operations happen in it.  Every event the fs source makes is
//! numbered at the point where it is sent to the queue (`sources::fs::verif::stamp_events`), the filter
//! decides by file name (`rej*` rejected, `err*` error, anything else accepted) and records its verdict,
//! the handler records its batches.  Two traces come out:
//!   * the worker-family trace (reset / send / sent / recv / filter / handler_in / ... / end), which must
//!     be a behaviour of ActionWorker (WorkerTrace, untimed);
//!   * the source-level trace (reset / op / fsev / batch / end) for FsSource.tla: what the operations were,
//!     which paths each event names, what reached the handler.
//!
//! One scenario at a time per process: the notify thread reports through the process-wide sink.
//!
//! usage: fsreal_driver <scripts.ndjson> <worker-traces.ndjson> <source-traces.ndjson>

use std::{
	collections::HashMap,
	io::{BufRead, BufWriter, Write},
	path::{Path, PathBuf},
	sync::{Arc, Mutex},
	time::{Duration, Instant},
};

use serde::Deserialize;
use verif_harness::trace::{write_events, Ev, Recorder};
use watchexec::{
	error::RuntimeError,
	filter::Filterer,
	sources::fs::{verif as fsverif, Watcher},
	Config, WatchedPath, Watchexec,
};
use watchexec_events::{Event, Priority, Tag};
use watchexec_signals::Signal;

#[derive(Clone, Debug, Deserialize)]
struct Op {
	/// "create" | "write" | "remove" | "rename" | "mkdir"
	op: String,
	/// relative to the scenario directory; the watched tree is `root/`, `outside/` is not watched
	path: String,
	#[serde(default)]
	to: String,
	#[serde(default)]
	gap_ms: u64,
}

#[derive(Clone, Debug, Deserialize)]
struct Script {
	id: String,
	/// "native" | "poll"
	watcher: String,
	throttle: u64,
	/// directories and files that exist before the watch starts
	#[serde(default)]
	pre_dirs: Vec<String>,
	#[serde(default)]
	pre_files: Vec<String>,
	ops: Vec<Op>,
}

fn event_id(event: &Event) -> i64 {
	event.metadata.get("verif-id").and_then(|v| v.first()).and_then(|v| v.parse().ok()).unwrap_or(0)
}

fn class_of(name: &str) -> &'static str {
	if name.starts_with("rej") {
		"reject"
	} else if name.starts_with("err") {
		"error"
	} else {
		"pass"
	}
}

/// signals are judged by their name: USR2 is rejected, HUP makes the filter fail, anything else passes
fn signal_class(name: &str) -> &'static str {
	match name {
		"USR2" => "reject",
		"HUP" => "error",
		_ => "pass",
	}
}

fn signal_name(s: Signal) -> &'static str {
	match s {
		Signal::Hangup => "HUP",
		Signal::Interrupt => "INT",
		Signal::Quit => "QUIT",
		Signal::Terminate => "TERM",
		Signal::User1 => "USR1",
		Signal::User2 => "USR2",
		_ => "OTHER",
	}
}

/// what an event is about, as path-like names: filesystem paths relative to the scenario directory,
/// `signal/<NAME>`, `keyboard/eof`
fn subjects(event: &Event, base: &Path) -> Vec<String> {
	let mut out: Vec<String> = event.paths().map(|(p, _)| rel(base, p)).collect();
	for t in &event.tags {
		match t {
			Tag::Signal(s) => out.push(format!("signal/{}", signal_name(*s))),
			Tag::Keyboard(_) => out.push("keyboard/eof".into()),
			_ => {}
		}
	}
	out
}

fn verdict(event: &Event) -> &'static str {
	for t in &event.tags {
		if let Tag::Signal(s) = t {
			return signal_class(signal_name(*s));
		}
	}
	let mut v = "pass";
	for p in event.paths().map(|(p, _)| p) {
		match p.file_name().and_then(|n| n.to_str()).map_or("pass", class_of) {
			"error" => return "error",
			"reject" => v = "reject",
			_ => {}
		}
	}
	v
}

#[derive(Debug)]
struct NameFilterer {
	rec: Recorder,
	base: PathBuf,
	seen: Arc<Mutex<HashMap<i64, (String, Vec<String>)>>>,
}

impl Filterer for NameFilterer {
	fn check_event(&self, event: &Event, _priority: Priority) -> Result<bool, RuntimeError> {
		let id = event_id(event);
		let v = verdict(event);
		self.seen.lock().unwrap().insert(id, (v.into(), subjects(event, &self.base)));
		self.rec.rec(Ev::new("filter").id(id).a(v));
		match v {
			"pass" => Ok(true),
			"reject" => Ok(false),
			_ => Err(RuntimeError::Filterer { kind: "verif", err: format!("id={id}").into() }),
		}
	}
}

fn comps(path: &str) -> Vec<serde_json::Value> {
	path.split('/').filter(|c| !c.is_empty()).map(|c| serde_json::json!(c)).collect()
}

fn class_code(path: &str) -> i64 {
	if let Some(name) = path.strip_prefix("signal/") {
		return match signal_class(name) {
			"reject" => 1,
			"error" => 2,
			_ => 0,
		};
	}
	match class_of(path.rsplit('/').next().unwrap_or("")) {
		"reject" => 1,
		"error" => 2,
		_ => 0,
	}
}

fn rel(base: &Path, p: &Path) -> String {
	p.strip_prefix(base).map_or_else(|_| format!("?{}", p.display()), |r| r.display().to_string())
}

async fn run_script(s: Script) -> (Vec<Ev>, Vec<Ev>) {
	// signals sent to this very process must find a handler whatever the signal source has done so far
	let mut _guards = Vec::new();
	if s.ops.iter().any(|o| o.op == "signal") {
		use tokio::signal::unix::{signal, SignalKind};
		for k in [SignalKind::user_defined1(), SignalKind::user_defined2(), SignalKind::hangup(), SignalKind::interrupt(),
			SignalKind::terminate(), SignalKind::quit()]
		{
			_guards.push(signal(k).expect("signal listener"));
		}
	}
	let tmp = tempfile::tempdir().expect("tempdir");
	let base = tmp.path().canonicalize().expect("canonical tempdir");
	std::fs::create_dir_all(base.join("root")).unwrap();
	std::fs::create_dir_all(base.join("outside")).unwrap();
	for d in &s.pre_dirs {
		std::fs::create_dir_all(base.join(d)).unwrap();
	}
	for f in &s.pre_files {
		std::fs::write(base.join(f), b"x").unwrap();
	}

	let start = Instant::now();
	let rec = Recorder::new(Arc::new(move || i64::try_from(start.elapsed().as_millis()).unwrap_or(i64::MAX)));
	// events made by the fs source, in the order they were sent: (id, time)
	let made: Arc<Mutex<Vec<i64>>> = Arc::new(Mutex::new(Vec::new()));
	let lost: Arc<Mutex<Vec<i64>>> = Arc::new(Mutex::new(Vec::new()));
	{
		let inner = rec.sink();
		let rec = rec.clone();
		let (made, lost) = (made.clone(), lost.clone());
		watchexec_supervisor::verif::set_global_sink(Some(Arc::new(move |name, a, b| match name {
			"fs_event" => {
				// the event is about to enter the queue: it cannot be received before this line
				made.lock().unwrap().push(a as i64);
				rec.rec(Ev::new("send").id(a as i64).x(1));
				rec.rec(Ev::new("sent").id(a as i64));
			}
			"fs_event_lost" => lost.lock().unwrap().push(a as i64),
			n if n.starts_with("fs_") || n == "cfg_wait" => {}
			_ => inner(name, a, b),
		})));
	}
	fsverif::stamp_events(true);

	let seen = Arc::new(Mutex::new(HashMap::new()));
	let config = Config::default();
	config.throttle(Duration::from_millis(s.throttle));
	config.filterer(NameFilterer { rec: rec.clone(), base: base.clone(), seen: seen.clone() });
	config.file_watcher(if s.watcher == "poll" { Watcher::Poll(Duration::from_millis(40)) } else { Watcher::Native });
	config.pathset([WatchedPath::recursive(base.join("root"))]);
	let errors: Arc<Mutex<Vec<String>>> = Arc::new(Mutex::new(Vec::new()));
	{
		let rec = rec.clone();
		let errors = errors.clone();
		config.on_error(move |hook: watchexec::ErrorHook| {
			let msg = format!("{:?}", hook.error);
			let id: i64 = msg
				.split("id=")
				.nth(1)
				.map(|s| s.chars().take_while(char::is_ascii_digit).collect::<String>())
				.and_then(|s| s.parse().ok())
				.unwrap_or(0);
			if id == 0 {
				errors.lock().unwrap().push(msg);
			}
			rec.rec(Ev::new("error").id(id).a("ignore"));
		});
	}
	let batches: Arc<Mutex<Vec<Vec<i64>>>> = Arc::new(Mutex::new(Vec::new()));
	{
		let rec = rec.clone();
		let batches = batches.clone();
		let (seen, base) = (seen.clone(), base.clone());
		config.on_action(move |action| {
			let ids: Vec<i64> = action.events.iter().map(event_id).collect();
			for e in action.events.iter() {
				// urgent events by-pass the filter: what they are about is learnt here
				seen.lock().unwrap().entry(event_id(e)).or_insert_with(|| ("urgent".into(), subjects(e, &base)));
			}
			let mut ev = Ev::new("handler_in");
			ev.pending = Some(ids.clone());
			rec.rec(ev);
			batches.lock().unwrap().push(ids);
			rec.rec(Ev::new("handler_out"));
			action
		});
	}
	let wx = Watchexec::with_config(config).expect("watchexec");
	let main = wx.main();
	// let the watcher register (the poll watcher takes its first snapshot): a sentinel file is rewritten
	// until the source reports something, then things are left to calm down
	tokio::time::sleep(Duration::from_millis(if s.watcher == "poll" { 250 } else { 120 })).await;
	let limit = Instant::now() + Duration::from_secs(10);
	let mut n = 0;
	while made.lock().unwrap().is_empty() && Instant::now() < limit {
		n += 1;
		let _ = std::fs::write(base.join("root/pass_sentinel"), format!("{n}"));
		tokio::time::sleep(Duration::from_millis(if s.watcher == "poll" { 120 } else { 60 })).await;
	}
	tokio::time::sleep(Duration::from_millis(if s.watcher == "poll" { 400 } else { 250 })).await;

	let mut src = vec![Ev::new("reset").a(s.id.clone()).b(s.watcher.clone())];
	for (i, op) in s.ops.iter().enumerate() {
		if op.gap_ms > 0 {
			tokio::time::sleep(Duration::from_millis(op.gap_ms)).await;
		}
		let p = base.join(&op.path);
		let done = match op.op.as_str() {
			"create" | "write" => std::fs::write(&p, format!("{i}")).is_ok(),
			"remove" => std::fs::remove_file(&p).or_else(|_| std::fs::remove_dir(&p)).is_ok(),
			"rename" => std::fs::rename(&p, base.join(&op.to)).is_ok(),
			"mkdir" => std::fs::create_dir(&p).is_ok(),
			// a real signal to this very process (the signal source listens for it)
			"signal" => {
				let signo = match op.path.rsplit('/').next().unwrap_or("") {
					"USR1" => libc::SIGUSR1,
					"USR2" => libc::SIGUSR2,
					"HUP" => libc::SIGHUP,
					"INT" => libc::SIGINT,
					"TERM" => libc::SIGTERM,
					_ => libc::SIGQUIT,
				};
				unsafe { libc::kill(libc::getpid(), signo) == 0 }
			}
			// standard input is at its end (the driver is run with /dev/null): switching the keyboard
			// source on makes it report that
			"keyboard" => {
				wx.config.keyboard_events(true);
				true
			}
			_ => false,
		};
		let mut e = Ev::new("op").n(i as i64 + 1).a(op.op.clone()).b(op.path.clone()).x(i64::from(done)).w(class_code(&op.path));
		e.t = rec.now();
		e.kids = Some(comps(&op.path));
		src.push(e);
		if op.op == "rename" {
			let mut e = Ev::new("op_to").n(i as i64 + 1).b(op.to.clone()).w(class_code(&op.to));
			e.t = rec.now();
			e.kids = Some(comps(&op.to));
			src.push(e);
		}
	}
	// quiescence: nothing new from the source for a while, then one more window for the worker
	let quiet = Duration::from_millis(if s.watcher == "poll" { 700 } else { 500 });
	let hard = Instant::now() + Duration::from_secs(8);
	let mut last = (made.lock().unwrap().len(), Instant::now());
	while Instant::now() < hard {
		tokio::time::sleep(Duration::from_millis(25)).await;
		let n = made.lock().unwrap().len();
		if n != last.0 {
			last = (n, Instant::now());
		} else if last.1.elapsed() >= quiet {
			break;
		}
	}
	tokio::time::sleep(Duration::from_millis(s.throttle + 120)).await;
	fsverif::stamp_events(false);
	rec.rec(Ev::new("end"));
	rec.stop();
	watchexec_supervisor::verif::set_global_sink(None);
	main.abort();
	drop(wx);

	// the worker-family trace: the reset line lists every event with its verdict
	let seen = seen.lock().unwrap();
	let made = made.lock().unwrap().clone();
	let mut reset = Ev::new("reset").a(s.id.clone());
	reset.kids = Some(
		made.iter()
			.map(|id| {
				let (v, subj) = seen.get(id).cloned().unwrap_or_else(|| ("pass".into(), Vec::new()));
				let prio = if subj.iter().any(|s| s == "signal/INT" || s == "signal/TERM") {
					3
				} else if subj.iter().any(|s| s.starts_with("signal/")) {
					2
				} else {
					1
				};
				let v = if v == "urgent" { "pass" } else { v.as_str() };
				serde_json::json!({"id": id, "prio": prio, "verdict": v, "empty": false, "hold": 0,
					"act": "none", "arg": 0, "onerr": "ignore"})
			})
			.collect(),
	);
	reset.x = s.throttle as i64;
	reset.n = 4096;
	reset.w = 64;
	let mut worker = vec![reset];
	worker.extend(rec.take());

	// the source-level trace
	for id in &made {
		let (v, subj) = seen.get(id).cloned().unwrap_or_else(|| ("unseen".into(), Vec::new()));
		// (an urgent event is not shown to the filter: it is delivered whatever its name)
		let mut e = Ev::new("fsev").id(*id).a(if v == "urgent" { "pass".to_string() } else { v });
		e.kids = Some(subj.iter().map(|r| serde_json::json!({"p": comps(r), "c": class_code(r)})).collect());
		src.push(e);
	}
	for b in batches.lock().unwrap().iter() {
		let mut e = Ev::new("batch");
		e.pending = Some(b.clone());
		src.push(e);
	}
	for id in lost.lock().unwrap().iter() {
		src.push(Ev::new("lost").id(*id));
	}
	for msg in errors.lock().unwrap().iter() {
		src.push(Ev::new("source_error").a(msg.chars().take(160).collect::<String>()));
	}
	src.push(Ev::new("end"));
	(worker, src)
}

fn main() {
	let args: Vec<String> = std::env::args().collect();
	let (sp, wp, fp) = (&args[1], &args[2], &args[3]);
	let scripts: Vec<Script> = std::io::BufReader::new(std::fs::File::open(sp).expect("scripts"))
		.lines()
		.map_while(Result::ok)
		.filter(|l| !l.trim().is_empty())
		.map(|l| serde_json::from_str(&l).expect("script json"))
		.collect();
	let mut wout = BufWriter::new(std::fs::File::create(wp).expect("out file"));
	let mut fout = BufWriter::new(std::fs::File::create(fp).expect("out file"));
	for s in scripts {
		let rt = tokio::runtime::Builder::new_current_thread().enable_all().build().unwrap();
		let id = s.id.clone();
		let res = std::panic::catch_unwind(std::panic::AssertUnwindSafe(|| rt.block_on(run_script(s))));
		drop(rt);
		let (w, f) = res.unwrap_or_else(|_| (vec![Ev::new("driver_panic").a(id.clone())], vec![Ev::new("driver_panic").a(id)]));
		write_events(&mut wout, &w).unwrap();
		write_events(&mut fout, &f).unwrap();
	}
	wout.flush().unwrap();
	fout.flush().unwrap();
}
