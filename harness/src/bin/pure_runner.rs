//! Runs the cases enumerated by the decision specs (spec/pure/*.tla) against the real crates.
//!
//! usage: pure_runner <kind> <cases.ndjson> <results.ndjson> [--threads N]
//!
//! Each input line is one case as TLC printed it (plus "case": n). Each output line is
//! {"case": n, "got": ...}: what the real code answered. The comparison with the spec's expected
//! answer is done by tools/purecheck.py, not here.

use std::{
	io::{BufRead, BufWriter, Write},
	sync::{
		atomic::{AtomicUsize, Ordering},
		Arc, Mutex,
	},
};

use serde_json::{json, Value};

mod origins {
	use super::*;
	use project_origins::{origins, types, ProjectType};
	use std::path::{Path, PathBuf};

	fn place(dir: &Path, entries: &Value) {
		for e in entries.as_array().unwrap() {
			let p = dir.join(e["name"].as_str().unwrap());
			if e["kind"] == "dir" {
				std::fs::create_dir(&p).unwrap();
			} else {
				std::fs::write(&p, b"x").unwrap();
			}
		}
	}

	pub fn all_types() -> Vec<(&'static str, ProjectType)> {
		use ProjectType::*;
		vec![
			("Bazaar", Bazaar),
			("Darcs", Darcs),
			("Fossil", Fossil),
			("Git", Git),
			("Mercurial", Mercurial),
			("Pijul", Pijul),
			("Subversion", Subversion),
			("Bundler", Bundler),
			("C", C),
			("Cargo", Cargo),
			("Docker", Docker),
			("Elixir", Elixir),
			("Go", Go),
			("Gradle", Gradle),
			("JavaScript", JavaScript),
			("Leiningen", Leiningen),
			("Maven", Maven),
			("Perl", Perl),
			("PHP", PHP),
			("Pip", Pip),
			("V", V),
			("Zig", Zig),
		]
	}

	fn type_name(t: ProjectType) -> String {
		all_types()
			.into_iter()
			.find(|(_, v)| *v == t)
			.map_or_else(|| format!("{t:?}"), |(n, _)| n.to_string())
	}

	pub async fn run(case: &Value, scratch: &Path) -> Value {
		if case.get("vcs").is_some() {
			let mut m = serde_json::Map::new();
			for (name, t) in all_types() {
				m.insert(name.into(), json!({"vcs": t.is_vcs(), "soft": t.is_soft()}));
			}
			return Value::Object(m);
		}
		let root = tempfile::tempdir_in(scratch).unwrap();
		let chain = case["chain"].as_array().unwrap();
		let mut dirs: Vec<PathBuf> = Vec::new();
		// level 1 is the topmost directory below the scratch root
		let mut cur = root.path().to_path_buf();
		for (i, level) in chain.iter().enumerate() {
			cur = cur.join(format!("d{}", i + 1));
			std::fs::create_dir(&cur).unwrap();
			place(&cur, level);
			dirs.push(cur.clone());
		}
		let start = case["start"].as_u64().unwrap() as usize;
		let found = origins(&dirs[start - 1]).await;
		let mut levels = Vec::new();
		let mut off_chain = Vec::new();
		for p in &found {
			if let Some(i) = dirs.iter().position(|d| d == p) {
				levels.push(i + 1);
			} else if !dirs[start - 1].starts_with(p) {
				off_chain.push(p.display().to_string());
			}
		}
		levels.sort_unstable();
		let mut tys = Vec::new();
		for d in &dirs {
			let mut t: Vec<String> = types(d).await.into_iter().map(type_name).collect();
			t.sort();
			tys.push(t);
		}
		json!({"origins": levels, "types": tys, "off_chain": off_chain})
	}
}

fn main() {
	let args: Vec<String> = std::env::args().collect();
	let kind = args[1].clone();
	let cases_path = &args[2];
	let out_path = &args[3];
	let mut threads = 12usize;
	if args.len() > 5 && args[4] == "--threads" {
		threads = args[5].parse().unwrap();
	}
	let scratch = std::path::Path::new(out_path)
		.parent()
		.unwrap()
		.join("scratch");
	std::fs::create_dir_all(&scratch).unwrap();

	let file = std::fs::File::open(cases_path).expect("cases file");
	let cases: Vec<Value> = std::io::BufReader::new(file)
		.lines()
		.map(|l| l.unwrap())
		.filter(|l| !l.trim().is_empty())
		.map(|l| serde_json::from_str(&l).expect("case json"))
		.collect();
	let cases = Arc::new(cases);
	let next = Arc::new(AtomicUsize::new(0));
	let results: Arc<Mutex<Vec<(usize, Value)>>> = Arc::new(Mutex::new(Vec::new()));

	let mut handles = Vec::new();
	for _ in 0..threads {
		let (cases, next, results, kind, scratch) = (
			cases.clone(),
			next.clone(),
			results.clone(),
			kind.clone(),
			scratch.clone(),
		);
		handles.push(std::thread::spawn(move || {
			let rt = tokio::runtime::Builder::new_current_thread()
				.enable_all()
				.build()
				.unwrap();
			let mut local = Vec::new();
			loop {
				let i = next.fetch_add(1, Ordering::SeqCst);
				if i >= cases.len() {
					break;
				}
				let case = &cases[i];
				let got = std::panic::catch_unwind(std::panic::AssertUnwindSafe(|| {
					rt.block_on(async {
						match kind.as_str() {
							"origins" => origins::run(case, &scratch).await,
							other => panic!("unknown kind {other}"),
						}
					})
				}))
				.unwrap_or_else(|_| json!({"panic": true}));
				local.push((i, json!({"case": case["case"], "got": got})));
			}
			results.lock().unwrap().extend(local);
		}));
	}
	for h in handles {
		h.join().unwrap();
	}
	let mut results = std::mem::take(&mut *results.lock().unwrap());
	results.sort_by_key(|(i, _)| *i);
	let mut out = BufWriter::new(std::fs::File::create(out_path).unwrap());
	for (_, v) in results {
		serde_json::to_writer(&mut out, &v).unwrap();
		out.write_all(b"\n").unwrap();
	}
	out.flush().unwrap();
	let _ = std::fs::remove_dir_all(&scratch);
}
