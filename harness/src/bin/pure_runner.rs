//! Runs the cases enumerated by the decision specs (spec/pure/*.tla) against the real crates.
//!
//! usage: pure_runner <kind> <cases.ndjson> <results.ndjson> [--threads N]
//!
//! Each input line is one case as TLC printed it (plus "case": n). Each output line is
//! {"case": n, "got": ...}: what the real code answered. The comparison with the spec's expected
//! answer is done by tools/purecheck.py, not here.

use std::{
	io::{BufRead, BufWriter, Write},
	sync::{
		atomic::{AtomicUsize, Ordering},
		Arc, Mutex,
	},
};

use serde_json::{json, Value};

mod origins {
	use super::*;
	use project_origins::{origins, types, ProjectType};
	use std::path::{Path, PathBuf};

	fn place(dir: &Path, entries: &Value) {
		for e in entries.as_array().unwrap() {
			let p = dir.join(e["name"].as_str().unwrap());
			if e["kind"] == "dir" {
				std::fs::create_dir(&p).unwrap();
			} else {
				std::fs::write(&p, b"x").unwrap();
			}
		}
	}

	pub fn all_types() -> Vec<(&'static str, ProjectType)> {
		use ProjectType::*;
		vec![
			("Bazaar", Bazaar),
			("Darcs", Darcs),
			("Fossil", Fossil),
			("Git", Git),
			("Mercurial", Mercurial),
			("Pijul", Pijul),
			("Subversion", Subversion),
			("Bundler", Bundler),
			("C", C),
			("Cargo", Cargo),
			("Docker", Docker),
			("Elixir", Elixir),
			("Go", Go),
			("Gradle", Gradle),
			("JavaScript", JavaScript),
			("Leiningen", Leiningen),
			("Maven", Maven),
			("Perl", Perl),
			("PHP", PHP),
			("Pip", Pip),
			("V", V),
			("Zig", Zig),
		]
	}

	fn type_name(t: ProjectType) -> String {
		all_types()
			.into_iter()
			.find(|(_, v)| *v == t)
			.map_or_else(|| format!("{t:?}"), |(n, _)| n.to_string())
	}

	pub async fn run(case: &Value, scratch: &Path) -> Value {
		if case.get("vcs").is_some() {
			let mut m = serde_json::Map::new();
			for (name, t) in all_types() {
				m.insert(name.into(), json!({"vcs": t.is_vcs(), "soft": t.is_soft()}));
			}
			return Value::Object(m);
		}
		let root = tempfile::tempdir_in(scratch).unwrap();
		let chain = case["chain"].as_array().unwrap();
		let mut dirs: Vec<PathBuf> = Vec::new();
		// level 1 is the topmost directory below the scratch root
		let mut cur = root.path().to_path_buf();
		for (i, level) in chain.iter().enumerate() {
			cur = cur.join(format!("d{}", i + 1));
			std::fs::create_dir(&cur).unwrap();
			place(&cur, level);
			dirs.push(cur.clone());
		}
		let start = case["start"].as_u64().unwrap() as usize;
		let found = origins(&dirs[start - 1]).await;
		let mut levels = Vec::new();
		let mut off_chain = Vec::new();
		for p in &found {
			if let Some(i) = dirs.iter().position(|d| d == p) {
				levels.push(i + 1);
			} else if !dirs[start - 1].starts_with(p) {
				off_chain.push(p.display().to_string());
			}
		}
		levels.sort_unstable();
		let mut tys = Vec::new();
		for d in &dirs {
			let mut t: Vec<String> = types(d).await.into_iter().map(type_name).collect();
			t.sort();
			tys.push(t);
		}
		json!({"origins": levels, "types": tys, "off_chain": off_chain})
	}
}

mod ignore {
	use super::*;
	use ignore_files::{IgnoreFile, IgnoreFilter};
	use std::path::{Path, PathBuf};
	use watchexec::filter::Filterer;
	use watchexec_events::{Event, FileType, Priority, Tag};
	use watchexec_filterer_ignore::IgnoreFilterer;

	fn mk(p: &Path, dir: bool) {
		if dir {
			std::fs::create_dir_all(p).unwrap();
		} else {
			std::fs::write(p, b"x").unwrap();
		}
	}

	fn rel(base: &Path, comps: &Value) -> PathBuf {
		let mut p = base.to_path_buf();
		for c in comps.as_array().unwrap() {
			p.push(c.as_str().unwrap());
		}
		p
	}

	fn verdicts(filter: &IgnoreFilter, probes: &[(PathBuf, bool)]) -> Vec<Value> {
		let filterer = IgnoreFilterer(filter.clone());
		probes
			.iter()
			.map(|(path, dir)| {
				let event = Event {
					tags: vec![Tag::Path {
						path: path.clone(),
						file_type: Some(if *dir { FileType::Dir } else { FileType::File }),
					}],
					metadata: Default::default(),
				};
				let pass = filterer.check_event(&event, Priority::Normal).unwrap();
				let raw = filter.match_path(path, *dir);
				json!({
					"ignored": !pass,
					"check_dir_ignored": if *dir { json!(!filter.check_dir(path)) } else { Value::Null },
					"raw": if raw.is_ignore() { "ignore" } else if raw.is_whitelist() { "white" } else { "none" },
				})
			})
			.collect()
	}

	pub async fn run(case: &Value, scratch: &Path) -> Value {
		let tmp = tempfile::tempdir_in(scratch).unwrap();
		let base = tmp.path().canonicalize().unwrap();
		let origin = base.join("proj");
		let outside = base.join("projx");
		for d in ["test/sub", "tests/sub", "a"] {
			mk(&origin.join(d), true);
		}
		for d in ["", "test", "test/sub", "tests", "tests/sub", "a"] {
			mk(&origin.join(d).join("foo"), false);
			mk(&origin.join(d).join("x.o"), false);
		}
		mk(&outside.join("sub"), true);
		mk(&outside.join("foo"), false);
		mk(&outside.join("x.o"), false);

		let mut files: Vec<(IgnoreFile, String)> = Vec::new();
		for (i, f) in case["files"].as_array().unwrap().iter().enumerate() {
			let loc = f["loc"].as_array().unwrap();
			let global = loc.first().map_or(false, |c| c == "GLOBAL");
			let dir = if global { base.clone() } else { rel(&origin, &f["loc"]) };
			let path = dir.join(format!(".ignore_{i}"));
			let mut content = String::new();
			for l in f["lines"].as_array().unwrap() {
				content.push_str(l.as_str().unwrap());
				content.push('\n');
			}
			std::fs::write(&path, content).unwrap();
			let key = if global { "GLOBAL".to_string() } else { dir.display().to_string() };
			files.push((
				IgnoreFile {
					path,
					applies_in: if global { None } else { Some(dir) },
					applies_to: None,
				},
				key,
			));
		}

		let expect = case["expect"].as_array().unwrap();
		let probes: Vec<(PathBuf, bool)> = expect
			.iter()
			.map(|e| {
				let comps = e["path"].as_array().unwrap();
				let p = if comps[0] == "OUT" {
					let mut p = outside.clone();
					for c in &comps[1..] {
						p.push(c.as_str().unwrap());
					}
					p
				} else {
					rel(&origin, &e["path"])
				};
				(p, e["dir"].as_bool().unwrap())
			})
			.collect();

		let listed: Vec<IgnoreFile> = files.iter().map(|(f, _)| f.clone()).collect();
		// a permutation that keeps the order of files applying in the same directory
		let mut permuted: Vec<(IgnoreFile, String)> = files.clone();
		permuted.reverse();
		permuted.sort_by(|a, b| b.1.cmp(&a.1));
		let mut groups: std::collections::BTreeMap<String, Vec<IgnoreFile>> = Default::default();
		for (f, k) in &files {
			groups.entry(k.clone()).or_default().push(f.clone());
		}
		let mut cursor: std::collections::BTreeMap<String, usize> = Default::default();
		let permuted: Vec<IgnoreFile> = permuted
			.iter()
			.map(|(_, k)| {
				let i = cursor.entry(k.clone()).or_insert(0);
				let f = groups[k][*i].clone();
				*i += 1;
				f
			})
			.collect();

		let mut out = serde_json::Map::new();
		let mut put = |name: &str, r: Result<IgnoreFilter, String>| {
			out.insert(
				name.into(),
				match r {
					Ok(f) => json!(verdicts(&f, &probes)),
					Err(e) => json!({"error": e}),
				},
			);
		};
		put("new", IgnoreFilter::new(&origin, &listed).await.map_err(|e| e.to_string()));
		put("new_again", IgnoreFilter::new(&origin, &listed).await.map_err(|e| e.to_string()));
		put("new_permuted", IgnoreFilter::new(&origin, &permuted).await.map_err(|e| e.to_string()));
		let added = async {
			let mut f = IgnoreFilter::new(&origin, &[]).await.map_err(|e| e.to_string())?;
			for file in &listed {
				f.add_file(file).await.map_err(|e| e.to_string())?;
			}
			Ok::<_, String>(f)
		}
		.await;
		put("new_then_add", added);
		let added = async {
			let mut f = IgnoreFilter::empty(&origin);
			for file in &permuted {
				f.add_file(file).await.map_err(|e| e.to_string())?;
			}
			Ok::<_, String>(f)
		}
		.await;
		put("empty_then_add_permuted", added);
		Value::Object(out)
	}
}

mod cliflags {
	use super::*;
	use std::{ffi::OsString, path::{Path, PathBuf}, sync::OnceLock};
	use watchexec::filter::Filterer;
	use watchexec_cli::verif::{args_from, WatchexecFilterer};
	use watchexec_events::{
		filekind::{CreateKind, DataChange, FileEventKind, ModifyKind},
		Event, FileType, Priority, Source, Tag,
	};

	static BASE: OnceLock<PathBuf> = OnceLock::new();

	/// One shared, read-only project + fake home; the environment is process-wide, so it is set once.
	pub fn setup(scratch: &Path) {
		BASE.get_or_init(|| {
			let base = scratch.canonicalize().unwrap().join("cli");
			let w = |p: &str, c: &str| {
				let p = base.join(p);
				std::fs::create_dir_all(p.parent().unwrap()).unwrap();
				std::fs::write(p, c).unwrap();
			};
			std::fs::create_dir_all(base.join("proj/.git")).unwrap();
			std::fs::create_dir_all(base.join("home")).unwrap();
			w("proj/.git/HEAD", "ref: refs/heads/main\n");
			w("proj/.gitignore", "by_vcs_project\n");
			w("proj/.ignore", "by_generic_project\n");
			w("xdg/git/ignore", "by_vcs_global\n");
			w("xdg/watchexec/ignore", "by_app_global\n");
			w("explicit_ignores", "by_cli_ignore_file\n");
			// a file that is watched explicitly (-w FILE): it is let through whatever the ignores and filters say
			w("proj/by_vcs_project", "x\n");
			w("explicit_filters", "*.keep\n");
			// a second watched directory, outside the project origin
			std::fs::create_dir_all(base.join("other")).unwrap();
			for (k, _) in std::env::vars_os() {
				let ks = k.to_string_lossy().to_string();
				if ks.starts_with("GIT_") || ks.starts_with("WATCHEXEC_") || ks == "APPDATA" || ks == "USERPROFILE" {
					std::env::remove_var(k);
				}
			}
			std::env::set_var("HOME", base.join("home"));
			std::env::set_var("XDG_CONFIG_HOME", base.join("xdg"));
			std::env::set_var("GIT_CONFIG_NOSYSTEM", "1");
			std::env::set_current_dir(base.join("proj")).unwrap();
			base
		});
	}

	fn ev(path: PathBuf, kind: FileEventKind) -> Event {
		Event {
			tags: vec![
				Tag::Source(Source::Filesystem),
				Tag::FileEventKind(kind),
				Tag::Path { path, file_type: Some(FileType::File) },
			],
			metadata: Default::default(),
		}
	}

	pub async fn run(case: &Value, _scratch: &Path) -> Value {
		let base = BASE.get().unwrap();
		let proj = base.join("proj");
		let mut argv: Vec<OsString> = vec!["watchexec".into(), "--project-origin".into(), proj.clone().into(), "-w".into(), proj.clone().into()];
		if case["watchfile"].as_bool().unwrap_or(false) {
			argv.push("-w".into());
			argv.push(proj.join("by_vcs_project").into());
		}
		let outside = case["outside"].as_bool().unwrap_or(false);
		if outside {
			argv.push("-w".into());
			argv.push(base.join("other").into());
		}
		for f in case["flags"].as_array().unwrap() {
			argv.push(format!("--{}", f.as_str().unwrap()).into());
		}
		let opt = case["opt"].as_str().unwrap();
		let mut explicit = "plain2.txt";
		match opt {
			"ignore" => { argv.push("--ignore".into()); argv.push("by_cli_ignore".into()); explicit = "by_cli_ignore"; }
			"ignore-file" => { argv.push("--ignore-file".into()); argv.push(base.join("explicit_ignores").into()); explicit = "by_cli_ignore_file"; }
			"filter" => { argv.push("--filter".into()); argv.push("*.keep".into()); explicit = "explicit.keep"; }
			"filter-file" => { argv.push("--filter-file".into()); argv.push(base.join("explicit_filters").into()); explicit = "explicit.keep"; }
			"exts" => { argv.push("--exts".into()); argv.push("keep".into()); explicit = "explicit.keep"; }
			"fs-events" => { argv.push("--fs-events".into()); argv.push("create".into()); }
			_ => {}
		}
		argv.push("--".into());
		argv.push("true".into());
		let shown: Vec<String> = argv.iter().map(|a| a.to_string_lossy().to_string()).collect();

		let args = match args_from(argv).await {
			Ok(a) => a,
			Err(e) => return json!({"error": format!("args: {e}"), "argv": shown}),
		};
		let filterer = match WatchexecFilterer::new(&args).await {
			Ok(f) => f,
			Err(e) => return json!({"error": format!("filterer: {e:?}"), "argv": shown}),
		};
		let create = FileEventKind::Create(CreateKind::File);
		let modify = FileEventKind::Modify(ModifyKind::Data(DataChange::Content));
		let check = |name: &str, kind: FileEventKind| -> Value {
			match filterer.check_event(&ev(proj.join(name), kind), Priority::Normal) {
				Ok(b) => json!(b),
				Err(e) => json!(format!("error: {e}")),
			}
		};
		let mut sources = serde_json::Map::new();
		for (src, file) in [
			("vcs_project", "by_vcs_project"),
			("generic_project", "by_generic_project"),
			("vcs_global", "by_vcs_global"),
			("app_global", "by_app_global"),
			("builtin", "by_builtin.pyc"),
		] {
			sources.insert(src.into(), check(file, create));
		}
		// the same probes in the watched directory outside the project origin
		let mut out = serde_json::Map::new();
		if outside {
			let check_out = |name: &str| -> Value {
				match filterer.check_event(&ev(base.join("other").join(name), create), Priority::Normal) {
					Ok(b) => json!(b),
					Err(e) => json!(format!("error: {e}")),
				}
			};
			for (src, file) in [
				("vcs_project", "by_vcs_project"),
				("generic_project", "by_generic_project"),
				("vcs_global", "by_vcs_global"),
				("app_global", "by_app_global"),
				("builtin", "by_builtin.pyc"),
				("plain", "plain.txt"),
			] {
				out.insert(src.into(), check_out(file));
			}
			out.insert("explicit".into(), check_out(explicit));
		}
		json!({
			"outside": out,
			"sources": sources,
			"plain": check("plain.txt", create),
			"explicit": check(explicit, create),
			"create": check("plain.txt", create),
			"modify": check("plain.txt", modify),
			"argv": shown,
		})
	}
}

mod signals {
	use super::*;
	use std::{os::unix::process::ExitStatusExt, process::ExitStatus, str::FromStr};
	use watchexec_events::ProcessEnd;
	use watchexec_signals::Signal;

	fn os_number(s: Signal) -> Value {
		s.to_nix().map_or(Value::Null, |n| json!(n as i32))
	}

	fn recase(text: &str, case: &str) -> String {
		match case {
			"lower" => text.to_ascii_lowercase(),
			"mixed" => text
				.chars()
				.enumerate()
				.map(|(i, c)| if i % 2 == 0 { c.to_ascii_uppercase() } else { c.to_ascii_lowercase() })
				.collect(),
			_ => text.to_ascii_uppercase(),
		}
	}

	/// `--map-signal FROM:TO` through the CLI's own argument parser
	async fn map_signal(case: &Value) -> Value {
		let lc = case["lettercase"].as_str().unwrap();
		let text = format!("{}:{}", recase(case["from"].as_str().unwrap(), lc), recase(case["to"].as_str().unwrap(), lc));
		let argv: Vec<std::ffi::OsString> =
			vec!["watchexec".into(), "--map-signal".into(), text.clone().into(), "--".into(), "true".into()];
		match watchexec_cli::verif::args_from(argv).await {
			Ok(args) => {
				let maps: Vec<Value> = args
					.events
					.signal_map
					.iter()
					.map(|m| json!([os_number(m.from), m.to.map_or(json!(-1), os_number)]))
					.collect();
				json!({"maps": maps, "text": text})
			}
			Err(e) => json!({"error": format!("args: {e}"), "text": text}),
		}
	}

	pub async fn run(case: &Value) -> Value {
		if case["kind"].as_str() == Some("map") {
			return map_signal(case).await;
		}
		run_sync(case)
	}

	fn run_sync(case: &Value) -> Value {
		match case["kind"].as_str().unwrap() {
			"parse" => {
				let text = recase(case["text"].as_str().unwrap(), case["lettercase"].as_str().unwrap());
				match Signal::from_str(&text) {
					Ok(s) => json!({"n": os_number(s), "text": text}),
					Err(e) => json!({"error": e.to_string(), "text": text}),
				}
			}
			"display_custom" => {
				let s = Signal::Custom(case["n"].as_i64().unwrap() as i32);
				let shown = s.to_string();
				match Signal::from_str(&shown) {
					Ok(back) => json!({"n": os_number(back), "text": shown}),
					Err(e) => json!({"error": e.to_string(), "text": shown}),
				}
			}
			"display_first" => {
				let s = match case["name"].as_str().unwrap() {
					"Hangup" => Signal::Hangup,
					"ForceStop" => Signal::ForceStop,
					"Interrupt" => Signal::Interrupt,
					"Quit" => Signal::Quit,
					"Terminate" => Signal::Terminate,
					"User1" => Signal::User1,
					_ => Signal::User2,
				};
				let shown = s.to_string();
				match Signal::from_str(&shown) {
					Ok(back) => json!({"n": os_number(back), "direct": os_number(s), "text": shown}),
					Err(e) => json!({"error": e.to_string(), "text": shown}),
				}
			}
			"from_number" => {
				let s = Signal::from(case["n"].as_i64().unwrap() as i32);
				json!({"n": os_number(s)})
			}
			"status" => {
				let raw = case["raw"].as_i64().unwrap() as i32;
				let end = ProcessEnd::from(ExitStatus::from_raw(raw));
				let back = |e: ProcessEnd| e.into_exitstatus().into_raw();
				match end {
					ProcessEnd::Success => json!({"d": "success", "v": 0, "back": back(end)}),
					ProcessEnd::ExitError(c) => json!({"d": "error", "v": c.get(), "back": back(end)}),
					ProcessEnd::ExitSignal(s) => json!({"d": "signal", "v": os_number(s), "back": back(end)}),
					ProcessEnd::ExitStop(c) => json!({"d": "stop", "v": c.get()}),
					ProcessEnd::Exception(c) => json!({"d": "exception", "v": c.get()}),
					ProcessEnd::Continued => json!({"d": "continued", "v": 0}),
				}
			}
			other => json!({"error": format!("unknown kind {other}")}),
		}
	}
}

mod paths {
	use super::*;
	use std::path::PathBuf;
	use watchexec::paths::summarise_events_to_env;
	use watchexec_cli::verif::{emits_to_environment, events_to_simple_format};
	use watchexec_events::{
		filekind::{AccessKind, AccessMode, CreateKind, DataChange, FileEventKind, MetadataKind, ModifyKind, RemoveKind, RenameMode},
		Event, FileType, Tag,
	};

	fn kind_of(class: &str) -> FileEventKind {
		match class {
			"WRITTEN" => FileEventKind::Modify(ModifyKind::Data(DataChange::Content)),
			"META_CHANGED" => FileEventKind::Modify(ModifyKind::Metadata(MetadataKind::Permissions)),
			"REMOVED" => FileEventKind::Remove(RemoveKind::File),
			"CREATED" => FileEventKind::Create(CreateKind::File),
			"RENAMED" => FileEventKind::Modify(ModifyKind::Name(RenameMode::Both)),
			"WRITTEN_BY_CLOSE" => FileEventKind::Access(AccessKind::Close(AccessMode::Write)),
			"OTHERWISE_ACCESS" => FileEventKind::Access(AccessKind::Open(AccessMode::Read)),
			_ => FileEventKind::Other,
		}
	}

	pub fn run(case: &Value) -> Value {
		let mut events = Vec::new();
		for e in case["batch"].as_array().unwrap() {
			let mut tags = Vec::new();
			for k in e["kinds"].as_array().unwrap() {
				tags.push(Tag::FileEventKind(kind_of(k.as_str().unwrap())));
			}
			for p in e["paths"].as_array().unwrap() {
				let mut path = PathBuf::from("/");
				for c in p["comps"].as_array().unwrap() {
					path.push(c.as_str().unwrap());
				}
				tags.push(Tag::Path {
					path,
					file_type: Some(if p["dir"].as_bool().unwrap() { FileType::Dir } else { FileType::File }),
				});
			}
			events.push(Event { tags, metadata: Default::default() });
		}
		let mut lib = serde_json::Map::new();
		for (k, v) in summarise_events_to_env(events.iter()) {
			lib.insert(k.to_string(), json!(v.to_string_lossy()));
		}
		let mut cli = serde_json::Map::new();
		for var in emits_to_environment(&events) {
			let k = var.key.strip_prefix("WATCHEXEC_").and_then(|k| k.strip_suffix("_PATH")).unwrap_or(&var.key).to_string();
			cli.insert(k, json!(var.value.to_string_lossy()));
		}
		let lines: Vec<String> = match events_to_simple_format(&events) {
			Ok(s) => s.lines().map(str::to_string).collect(),
			Err(e) => return json!({"error": e.to_string()}),
		};
		json!({"lib": lib, "cli": cli, "lines": lines})
	}
}

mod eventjson {
	use super::*;
	use rand::{rngs::StdRng, Rng, SeedableRng};
	use watchexec_events::Event;

	/// Concrete leaves for one variant of a shape.
	fn binds(variant: usize, rng: &mut StdRng) -> serde_json::Map<String, Value> {
		let paths = ["/", "/tmp/x", "/with space/and \"quote\"", "/ünï/cødé/\u{1F980}", "relative/path", "/a/./b/../c", "/nl\nin/name"];
		let pids: [u32; 5] = [0, 1, 42, u32::MAX - 1, u32::MAX];
		let c32: [i64; 6] = [1, -1, 255, i32::MAX as i64, i32::MIN as i64, 77];
		let c64: [i64; 6] = [1 << 40, -(1 << 40), i64::MAX, i64::MIN, (i32::MAX as i64) + 1, (i32::MIN as i64) - 1];
		let sig: [i64; 5] = [34, 64, 0, -3, 1000];
		let mut m = serde_json::Map::new();
		let pick = |n: usize, rng: &mut StdRng| if variant < n { variant } else { rng.gen_range(0..n) };
		m.insert("$path".into(), json!(paths[pick(paths.len(), rng)]));
		m.insert("$pid".into(), json!(pids[pick(pids.len(), rng)]));
		m.insert("$code32".into(), json!(c32[pick(c32.len(), rng)]));
		m.insert("$code64".into(), json!(c64[pick(c64.len(), rng)]));
		m.insert("$signum".into(), json!(sig[pick(sig.len(), rng)]));
		m
	}

	fn build(doc: &Value, bind: &serde_json::Map<String, Value>) -> Value {
		let mut o = serde_json::Map::new();
		for (k, v) in doc.as_object().unwrap() {
			let v = v.as_str().unwrap();
			if v == "-" {
				continue;
			}
			let val = if let Some(b) = bind.get(v) {
				b.clone()
			} else if v == "0" {
				json!(0)
			} else {
				json!(v)
			};
			o.insert(k.clone(), val);
		}
		Value::Object(o)
	}

	fn tag_roundtrip(obj: &Value) -> Result<(Value, bool), String> {
		// an event holding exactly this tag, parsed by the real deserialiser
		let ev_json = json!({"tags": [obj]});
		let ev: Event = serde_json::from_value(ev_json).map_err(|e| e.to_string())?;
		let back = serde_json::to_value(&ev).map_err(|e| e.to_string())?;
		let again: Event = serde_json::from_value(back.clone()).map_err(|e| e.to_string())?;
		let tag = back["tags"].get(0).cloned().unwrap_or(Value::Null);
		Ok((tag, again == ev))
	}

	pub fn run(case: &Value) -> Value {
		let seed = case["case"].as_u64().unwrap_or(0);
		let mut rng = StdRng::seed_from_u64(seed ^ 0x5eed);
		if case.get("shape").is_some() {
			let mut variants = Vec::new();
			for v in 0..8 {
				let bind = binds(v, &mut rng);
				let obj = build(&case["doc"], &bind);
				match tag_roundtrip(&obj) {
					Ok((tag, rt)) => variants.push(json!({"json": tag, "roundtrip": rt, "bind": bind})),
					Err(e) => return json!({"error": format!("{e} on {obj}")}),
				}
			}
			// events of several tags of this shape mixed with others, with metadata
			let mut events_ok = true;
			let mut events_bad = Value::Null;
			for n in 0..5usize {
				let bind = binds(100, &mut rng);
				let obj = build(&case["doc"], &bind);
				let mut tags = Vec::new();
				for i in 0..n {
					tags.push(if i % 2 == 0 { obj.clone() } else { json!({"kind": "source", "source": "os"}) });
				}
				let mut ev = serde_json::Map::new();
				if !tags.is_empty() {
					ev.insert("tags".into(), json!(tags));
				}
				if n % 2 == 1 {
					ev.insert("metadata".into(), json!({"k\u{e9}y": ["v1", ""], "": ["x"]}));
				}
				let evj = Value::Object(ev);
				let ok = serde_json::from_value::<Event>(evj.clone())
					.ok()
					.and_then(|e| serde_json::to_value(&e).ok().map(|j| (e, j)))
					.map_or(false, |(e, j)| j == evj && serde_json::from_value::<Event>(j).map_or(false, |b| b == e));
				if !ok {
					events_ok = false;
					events_bad = evj;
				}
			}
			json!({"variants": variants, "events_ok": events_ok, "events_bad": events_bad})
		} else {
			let bind = binds(100, &mut rng);
			let obj = build(&case["obj"], &bind);
			match tag_roundtrip(&obj) {
				Ok((tag, _)) => json!({"json": tag, "bind": bind, "input": obj}),
				Err(e) => json!({"error": format!("{e} on {obj}")}),
			}
		}
	}
}

mod globset {
	use super::*;
	use ignore_files::IgnoreFile;
	use std::{ffi::OsString, path::{Path, PathBuf}};
	use watchexec::filter::Filterer;
	use watchexec_events::{Event, FileType, Priority, Tag};
	use watchexec_filterer_globset::GlobsetFilterer;

	fn strs(v: &Value) -> Vec<String> {
		v.as_array().unwrap().iter().map(|x| x.as_str().unwrap().to_string()).collect()
	}

	/// a path of the spec: relative to the origin, or - first component "OUT" - in a sibling of it
	fn rel(base: &Path, comps: &Value) -> PathBuf {
		let comps = comps.as_array().unwrap();
		let out = comps.first().and_then(Value::as_str) == Some("OUT");
		let mut p = if out { base.parent().unwrap().join("elsewhere") } else { base.to_path_buf() };
		for c in comps.iter().skip(usize::from(out)) {
			p.push(c.as_str().unwrap());
		}
		p
	}

	pub async fn run(case: &Value, scratch: &Path) -> Value {
		let tmp = tempfile::tempdir_in(scratch).unwrap();
		let origin = tmp.path().canonicalize().unwrap().join("proj");
		std::fs::create_dir_all(origin.parent().unwrap().join("elsewhere/sub")).unwrap();
		std::fs::create_dir_all(origin.parent().unwrap().join("elsewhere/test")).unwrap();
		for d in ["test/sub", "tests/sub"] {
			std::fs::create_dir_all(origin.join(d)).unwrap();
		}
		let mut ignore_files = Vec::new();
		let lines = strs(&case["ignorefile"]);
		if !lines.is_empty() {
			let path = origin.join(".ignore");
			std::fs::write(&path, lines.join("\n") + "\n").unwrap();
			ignore_files.push(IgnoreFile { path, applies_in: Some(origin.clone()), applies_to: None });
		}
		let whitelist: Vec<PathBuf> = case["whitelist"].as_array().unwrap().iter().map(|w| rel(&origin, w)).collect();
		let exts: Vec<OsString> = match case["extlist"].as_array() {
			Some(l) => l.iter().map(|e| e.as_str().unwrap().into()).collect(),
			None => if case["exts"].as_bool().unwrap() { vec!["o".into()] } else { vec![] },
		};
		let filterer = match GlobsetFilterer::new(
			&origin,
			strs(&case["filters"]).into_iter().map(|f| (f, None)),
			strs(&case["ignores"]).into_iter().map(|f| (f, None)),
			whitelist,
			ignore_files,
			exts,
		)
		.await
		{
			Ok(f) => f,
			Err(e) => return json!({"error": e.to_string()}),
		};
		let dirs = [vec!["test"], vec!["test", "sub"], vec!["tests", "sub"], vec!["OUT", "sub"]];
		let verdicts: Vec<Value> = case["expect"]
			.as_array()
			.unwrap()
			.iter()
			.map(|e| {
				let tags: Vec<Tag> = e["ev"]
					.as_array()
					.unwrap()
					.iter()
					.map(|p| {
						let comps: Vec<&str> = p["path"].as_array().unwrap().iter().map(|c| c.as_str().unwrap()).collect();
						let is_dir = dirs.iter().any(|d| *d == comps);
						Tag::Path {
							path: rel(&origin, &p["path"]),
							file_type: if p["ft"] == "known" {
								Some(if is_dir { FileType::Dir } else { FileType::File })
							} else {
								None
							},
						}
					})
					.collect();
				let event = Event { tags, metadata: Default::default() };
				match filterer.check_event(&event, Priority::Normal) {
					Ok(b) => json!(b),
					Err(e) => json!(e.to_string()),
				}
			})
			.collect();
		json!({"pass": verdicts})
	}
}

mod discover {
	use super::*;
	use ignore_files::{from_origin, IgnoreFilesFromOriginArgs};
	use std::path::{Path, PathBuf};

	fn rel(base: &Path, comps: &Value) -> PathBuf {
		let mut p = base.to_path_buf();
		for c in comps.as_array().unwrap() {
			p.push(c.as_str().unwrap());
		}
		p
	}

	pub async fn run(case: &Value, scratch: &Path) -> Value {
		let variant = case["case"].as_u64().unwrap_or(0) as usize;
		let tmp = tempfile::tempdir_in(scratch).unwrap();
		let origin = tmp.path().canonicalize().unwrap().join("proj");
		// create the directories in an order that depends on the case, to vary readdir order
		let mut dirs = vec!["test/sub", "tests/sub", "a", ".git/info", "_darcs/prefs"];
		dirs.rotate_left(variant % 5);
		if variant % 2 == 1 {
			dirs.reverse();
		}
		for d in dirs {
			std::fs::create_dir_all(origin.join(d)).unwrap();
		}
		for d in ["", "test", "tests", "a", "test/sub", "tests/sub"] {
			std::fs::write(origin.join(d).join("x.o"), b"x").unwrap();
		}
		for f in case["files"].as_array().unwrap() {
			let dir = rel(&origin, &f["loc"]);
			let lines: Vec<&str> = f["lines"].as_array().unwrap().iter().map(|l| l.as_str().unwrap()).collect();
			let content = if lines.is_empty() { String::new() } else { lines.join("\n") + "\n" };
			std::fs::write(dir.join(f["kind"].as_str().unwrap()), content).unwrap();
		}
		// the origin-level files
		let outside = origin.parent().unwrap().to_path_buf();
		let mut explicit = Vec::new();
		let mut excludes_path = outside.join("global_excludes");
		for f in case["exclude"].as_array().unwrap() {
			let lines: Vec<&str> = f["lines"].as_array().unwrap().iter().map(|l| l.as_str().unwrap()).collect();
			let content = if lines.is_empty() { String::new() } else { lines.join("\n") + "\n" };
			match f["kind"].as_str().unwrap() {
				"explicit" => {
					let p = outside.join("explicit.ignore");
					std::fs::write(&p, content).unwrap();
					explicit.push(p);
				}
				"excludesfile" => {
					// the path is a leaf the specification leaves open: spelled absolutely, or relative to
					// the home directory (`~/...`, which from_origin() has to interpolate with $HOME)
					let spelled = if variant % 3 == 1 {
						let name = format!("excl_{}", tmp.path().file_name().unwrap().to_string_lossy());
						excludes_path = std::path::PathBuf::from(std::env::var("HOME").unwrap()).join(&name);
						format!("~/{name}")
					} else {
						excludes_path.display().to_string()
					};
					std::fs::write(&excludes_path, content).unwrap();
					std::fs::write(origin.join(".git/config"), format!("[core]\n\texcludesFile = {spelled}\n")).unwrap();
				}
				rel_name => {
					let p = origin.join(rel_name);
					std::fs::create_dir_all(p.parent().unwrap()).unwrap();
					std::fs::write(&p, content).unwrap();
				}
			}
		}
		let watches: Vec<PathBuf> = case["watches"].as_array().unwrap().iter().map(|w| rel(&origin, w)).collect();
		let args = match IgnoreFilesFromOriginArgs::new(&origin, watches, explicit) {
			Ok(a) => a,
			Err(e) => return json!({"error": e.to_string()}),
		};
		let (files, errors) = from_origin(args).await;
		let special = [".git/info/exclude", ".bzrignore", "_darcs/prefs/boring", ".fossil-settings/ignore-glob"];
		let mut found = Vec::new();
		for f in files {
			let dir = f.path.parent().unwrap().to_path_buf();
			let name = f.path.strip_prefix(&origin).map(|p| p.display().to_string()).unwrap_or_else(|_| f.path.display().to_string());
			let (kind, loc, want_in): (String, Vec<String>, Option<&Path>) = if special.contains(&name.as_str()) {
				(name.clone(), Vec::new(), Some(origin.as_path()))
			} else if f.path == outside.join("explicit.ignore") {
				("explicit".into(), Vec::new(), Some(origin.as_path()))
			} else if f.path == excludes_path {
				("excludesfile".into(), Vec::new(), None)
			} else {
				(
					f.path.file_name().unwrap().to_string_lossy().to_string(),
					dir.strip_prefix(&origin).map(|p| p.components().map(|c| c.as_os_str().to_string_lossy().to_string()).collect()).unwrap_or_default(),
					Some(dir.as_path()),
				)
			};
			let applies_in_ok = f.applies_in.as_deref() == want_in;
			found.push(json!({
				"loc": loc, "kind": kind,
				"applies_to": f.applies_to.map_or("-".to_string(), |t| format!("{t:?}")),
				"applies_in_ok": applies_in_ok,
			}));
		}
		json!({"found": found, "errors": errors.iter().map(ToString::to_string).collect::<Vec<_>>()})
	}
}

mod spawn {
	use super::*;
	use std::{path::Path, sync::Arc};
	use watchexec_supervisor::{
		command::{Command, Program, Shell, SpawnOptions},
		job::start_job,
	};

	/// the strings abstract tokens stand for, by variant
	fn bind(token: &str, variant: usize) -> String {
		let pool: [[&str; 3]; 6] = [
			["plain", "two words", "tab\tand  spaces "],
			["", "\"double\" 'single'", "$HOME `id` $(id)"],
			["*", "?[a-z]*.rs", "~"],
			["line\nbreak", "back\\slash", ";|&<>"],
			["ünï-cødé", "\u{1F980}", "日本語"],
			["-c", "--", "-"],
		];
		let i = match token { "T1" => 0, "T2" => 1, _ => 2 };
		pool[variant % 6][i].to_string()
	}

	fn hex(s: &str) -> String {
		s.as_bytes().iter().map(|x| format!("{x:02x}")).collect()
	}

	/// The command-line program's own way of making and running a command: a real argv through the CLI's
	/// argument parser and `make_config`, a real Watchexec, the start-up event, a real child (the helper,
	/// which also plays the shell so that nothing interprets the joined command string).
	async fn run_cli(case: &Value, scratch: &Path) -> Value {
		use std::ffi::OsString;
		use watchexec::Watchexec;
		use watchexec_cli::verif::{args_from, make_config, new_state};
		use watchexec_events::{Event, Priority, Source, Tag};

		let variant = case["case"].as_u64().unwrap_or(0) as usize;
		let helper = std::env::current_exe().unwrap().parent().unwrap().join("helper_child");
		let helper_s = helper.display().to_string();
		let tmp = tempfile::tempdir_in(scratch).unwrap();
		let out = tmp.path().join("report.json");
		let workdir = tmp.path().canonicalize().unwrap();
		let c = &case["cmd"];
		let opt = |t: &str| match (t, variant % 3) {
			("O1", 0) => "-x",
			("O1", 1) => "--norc",
			("O1", _) => "-o",
			(_, 0) => "-e",
			(_, 1) => "-u",
			_ => "shwordsplit",
		};
		// what an element of the expected argv stands for: tokens separated by single spaces
		let bind_elem = |e: &str| -> String {
			e.split(' ')
				.map(|t| match t {
					"HELPER" => helper_s.clone(),
					"-c" => "-c".to_string(),
					"O1" | "O2" => opt(t).to_string(),
					t => bind(t, variant),
				})
				.collect::<Vec<_>>()
				.join(" ")
		};
		let expected: Vec<String> = case["argv"].as_array().unwrap().iter().map(|t| hex(&bind_elem(t.as_str().unwrap()))).collect();
		let envval = bind("T2", variant + 1);
		let ws = ["  ", " ", "\t", " \t "][variant % 4];
		let mut argv: Vec<OsString> = vec![
			"watchexec".into(), "--quiet".into(), "-w".into(), "/dev/null".into(), "--project-origin".into(), "/".into(),
			format!("--wrap-process={}", match case["mode"].as_str().unwrap() { "grouped" => "group", "session" => "session", _ => "none" }).into(),
			"-E".into(), format!("VERIF_OUT={}", out.display()).into(),
			"-E".into(), format!("VERIF_X={envval}").into(),
			"--workdir".into(), workdir.clone().into(),
		];
		match c["shell"].as_str().unwrap() {
			"none" => argv.push("--shell=none".into()),
			"n" => argv.push("-n".into()),
			"env" => {}      // $SHELL (set to the helper when the runner started)
			"S" => argv.push(format!("--shell={helper_s}").into()),
			"S1" => argv.push(format!("--shell={helper_s}{ws}{}", opt("O1")).into()),
			_ => argv.push(format!("--shell={ws}{helper_s}{ws}{}{ws}{} ", opt("O1"), opt("O2")).into()),
		}
		match case["emit"].as_str().unwrap_or("default") {
			"default" => {}
			m => argv.push(format!("--emit-events-to={m}").into()),
		}
		argv.push("--".into());
		argv.push(helper_s.clone().into());
		for t in c["args"].as_array().unwrap() {
			argv.push(bind(t.as_str().unwrap(), variant).into());
		}
		let shown: Vec<String> = argv.iter().map(|a| a.to_string_lossy().to_string()).collect();
		let args = match args_from(argv).await {
			Ok(a) => a,
			Err(e) => return json!({"error": format!("args: {e}"), "cli_argv": shown}),
		};
		let state = match new_state(&args).await {
			Ok(s) => s,
			Err(e) => return json!({"error": format!("state: {e:?}"), "cli_argv": shown}),
		};
		let config = match make_config(&args, &state) {
			Ok(c) => c,
			Err(e) => return json!({"error": format!("config: {e:?}"), "cli_argv": shown}),
		};
		let wx = match Watchexec::with_config(config) {
			Ok(w) => Arc::new(w),
			Err(e) => return json!({"error": format!("watchexec: {e:?}"), "cli_argv": shown}),
		};
		let _ = wx.send_event(Event::default(), Priority::Urgent).await;
		let main = wx.main();
		for _ in 0..6000 {
			if out.exists() && std::fs::metadata(&out).map(|m| m.len() > 0).unwrap_or(false) {
				break;
			}
			tokio::time::sleep(std::time::Duration::from_millis(5)).await;
		}
		tokio::time::sleep(std::time::Duration::from_millis(10)).await;
		let _ = wx
			.send_event(
				Event { tags: vec![Tag::Source(Source::Os), Tag::Signal(watchexec_signals::Signal::Interrupt)], metadata: Default::default() },
				Priority::Urgent,
			)
			.await;
		let _ = tokio::time::timeout(std::time::Duration::from_secs(15), main).await;
		let report: Value = match std::fs::read(&out) {
			Ok(b) => serde_json::from_slice(&b).unwrap_or(Value::Null),
			Err(e) => return json!({"error": format!("child wrote no report: {e}"), "cli_argv": shown}),
		};
		let me = unsafe { (libc::getpid(), libc::getpgid(0), libc::getsid(0)) };
		let pid = report["pid"].as_i64().unwrap_or(0);
		json!({
			"argv": report["argv"], "expected_argv": expected, "cli_argv": shown,
			"own_group": report["pgid"].as_i64() == Some(pid),
			"parent_group": report["pgid"].as_i64() == Some(i64::from(me.1)),
			"own_session": report["sid"].as_i64() == Some(pid),
			"parent_session": report["sid"].as_i64() == Some(i64::from(me.2)),
			"cwd_ok": report["cwd"].as_str() == Some(&workdir.display().to_string()),
			"env_ok": report["env"].as_str() == Some(&hex(&envval)),
			"events_file": report["events_file"],
		})
	}

	pub async fn run(case: &Value, scratch: &Path) -> Value {
		if case["cmd"]["kind"] == "cli" {
			return run_cli(case, scratch).await;
		}
		let variant = case["case"].as_u64().unwrap_or(0) as usize;
		let helper = std::env::current_exe().unwrap().parent().unwrap().join("helper_child");
		let tmp = tempfile::tempdir_in(scratch).unwrap();
		let out = tmp.path().join("report.json");
		let workdir = tmp.path().canonicalize().unwrap();
		let c = &case["cmd"];
		let toks = |v: &Value| -> Vec<String> {
			v.as_array().unwrap().iter().map(|t| bind(t.as_str().unwrap(), variant)).collect()
		};
		let b1 = |t: &str| if t == "-c" { "-c".to_string() } else { bind(t, variant) };
		let program = if c["kind"] == "exec" {
			Program::Exec { prog: helper.clone(), args: toks(&c["args"]) }
		} else {
			Program::Shell {
				shell: Shell {
					prog: helper.clone(),
					options: toks(&c["opts"]),
					program_option: match c["progopt"].as_str().unwrap() {
						"-" => None,
						t => Some(std::borrow::Cow::Owned(b1(t).into())),
					},
				},
				command: bind(c["command"].as_str().unwrap(), variant),
				args: toks(&c["args"]),
			}
		};
		let expected: Vec<String> = case["argv"]
			.as_array()
			.unwrap()
			.iter()
			.map(|t| hex(&b1(t.as_str().unwrap())))
			.collect();
		let mode = case["mode"].as_str().unwrap();
		let (job, task) = start_job(Arc::new(Command {
			program,
			options: SpawnOptions {
				grouped: mode.split('+').any(|m| m == "grouped"),
				session: mode.split('+').any(|m| m == "session"),
				reset_sigmask: mode.split('+').any(|m| m == "sigmask"),
			},
		}));
		let envval = bind("T2", variant + 1);
		let via = case["via"].as_str().unwrap_or("start").to_string();
		let out1 = tmp.path().join("report1.json");
		{
			let (out, out1) = (out.clone(), out1.clone());
			let workdir = workdir.clone();
			let envval = envval.clone();
			let hold_first = via != "start";
			let spawns = Arc::new(std::sync::atomic::AtomicUsize::new(0));
			job.set_spawn_hook(move |cmd, _| {
				let n = spawns.fetch_add(1, std::sync::atomic::Ordering::SeqCst);
				let c = cmd.command_mut();
				c.env("VERIF_X", &envval).current_dir(&workdir);
				if hold_first && n == 0 {
					// the first child stays until the control under test replaces it
					c.env("VERIF_OUT", &out1).env("VERIF_HOLD", "1");
				} else {
					c.env("VERIF_OUT", &out);
				}
			});
		}
		job.start().await;
		if via != "start" {
			// wait for the first child to be up, then let the control under test respawn
			for _ in 0..400 {
				if out1.exists() {
					break;
				}
				tokio::time::sleep(std::time::Duration::from_millis(5)).await;
			}
			let grace = std::time::Duration::from_secs(5);
			match via.as_str() {
				"restart" => job.restart().await,
				"try_restart" => job.try_restart().await,
				"restart_with_signal" => job.restart_with_signal(watchexec_signals::Signal::Terminate, grace).await,
				"try_restart_with_signal" => job.try_restart_with_signal(watchexec_signals::Signal::Terminate, grace).await,
				other => panic!("unknown via {other}"),
			}
		}
		job.to_wait().await;
		job.delete_now().await;
		let _ = task.await;
		let report: Value = match std::fs::read(&out) {
			Ok(b) => serde_json::from_slice(&b).unwrap_or(Value::Null),
			Err(e) => return json!({"error": format!("child wrote no report: {e}")}),
		};
		let me = unsafe { (libc::getpid(), libc::getpgid(0), libc::getsid(0)) };
		let pid = report["pid"].as_i64().unwrap_or(0);
		json!({
			"argv": report["argv"], "expected_argv": expected,
			"own_group": report["pgid"].as_i64() == Some(pid),
			"parent_group": report["pgid"].as_i64() == Some(i64::from(me.1)),
			"own_session": report["sid"].as_i64() == Some(pid),
			"parent_session": report["sid"].as_i64() == Some(i64::from(me.2)),
			"cwd_ok": report["cwd"].as_str() == Some(&workdir.display().to_string()),
			"env_ok": report["env"].as_str() == Some(&hex(&envval)),
		})
	}
}

fn main() {
	let args: Vec<String> = std::env::args().collect();
	let kind = args[1].clone();
	let cases_path = &args[2];
	let out_path = &args[3];
	let mut threads = 12usize;
	// --incremental FROM: one thread, results appended and flushed case by case starting at case
	// FROM, so that an abort of the code under test can be pinned on the case that caused it
	let mut incremental: Option<usize> = None;
	let mut i = 4;
	while i + 1 < args.len() {
		match args[i].as_str() {
			"--threads" => threads = args[i + 1].parse().unwrap(),
			"--incremental" => {
				incremental = Some(args[i + 1].parse().unwrap());
				threads = 1;
			}
			_ => {}
		}
		i += 2;
	}
	if kind == "spawn" {
		// the command-line cases without --shell take the shell from the environment
		std::env::set_var("SHELL", std::env::current_exe().unwrap().parent().unwrap().join("helper_child"));
	}
	let scratch = std::path::Path::new(out_path)
		.parent()
		.unwrap()
		.join("scratch");
	std::fs::create_dir_all(&scratch).unwrap();

	if kind == "cliflags" {
		cliflags::setup(&scratch);
	}
	if kind == "discover" {
		// an empty home directory: no user-level git configuration, and a place for `~/...` excludes files
		let home = scratch.canonicalize().unwrap().join("home");
		std::fs::create_dir_all(&home).unwrap();
		std::env::set_var("HOME", &home);
		std::env::remove_var("XDG_CONFIG_HOME");
		std::env::set_var("GIT_CONFIG_NOSYSTEM", "1");
	}

	let file = std::fs::File::open(cases_path).expect("cases file");
	let cases: Vec<Value> = std::io::BufReader::new(file)
		.lines()
		.map(|l| l.unwrap())
		.filter(|l| !l.trim().is_empty())
		.map(|l| serde_json::from_str(&l).expect("case json"))
		.collect();
	let cases = Arc::new(cases);
	let next = Arc::new(AtomicUsize::new(incremental.unwrap_or(0)));
	let results: Arc<Mutex<Vec<(usize, Value)>>> = Arc::new(Mutex::new(Vec::new()));
	let inc_out = incremental.map(|_| {
		Arc::new(Mutex::new(
			std::fs::OpenOptions::new().create(true).append(true).open(out_path).unwrap(),
		))
	});

	let mut handles = Vec::new();
	for _ in 0..threads {
		let (cases, next, results, kind, scratch) = (
			cases.clone(),
			next.clone(),
			results.clone(),
			kind.clone(),
			scratch.clone(),
		);
		let inc_out = inc_out.clone();
		handles.push(std::thread::spawn(move || {
			let rt = tokio::runtime::Builder::new_current_thread()
				.enable_all()
				.build()
				.unwrap();
			let mut local = Vec::new();
			loop {
				let i = next.fetch_add(1, Ordering::SeqCst);
				if i >= cases.len() {
					break;
				}
				let case = &cases[i];
				let got = std::panic::catch_unwind(std::panic::AssertUnwindSafe(|| {
					rt.block_on(async {
						match kind.as_str() {
							"origins" => origins::run(case, &scratch).await,
							"ignore" => ignore::run(case, &scratch).await,
							"cliflags" => cliflags::run(case, &scratch).await,
							"signals" => signals::run(case).await,
							"spawn" => spawn::run(case, &scratch).await,
							"discover" => discover::run(case, &scratch).await,
							"globset" => globset::run(case, &scratch).await,
							"paths" => paths::run(case),
							"eventjson" => eventjson::run(case),
							other => panic!("unknown kind {other}"),
						}
					})
				}))
				.unwrap_or_else(|_| json!({"panic": true}));
				if let Some(out) = &inc_out {
					let mut out = out.lock().unwrap();
					serde_json::to_writer(&mut *out, &json!({"case": case["case"], "got": got})).unwrap();
					out.write_all(b"\n").unwrap();
					out.flush().unwrap();
				} else {
					local.push((i, json!({"case": case["case"], "got": got})));
				}
			}
			results.lock().unwrap().extend(local);
		}));
	}
	for h in handles {
		h.join().unwrap();
	}
	if incremental.is_some() {
		let _ = std::fs::remove_dir_all(&scratch);
		return;
	}
	let mut results = std::mem::take(&mut *results.lock().unwrap());
	results.sort_by_key(|(i, _)| *i);
	let mut out = BufWriter::new(std::fs::File::create(out_path).unwrap());
	for (_, v) in results {
		serde_json::to_writer(&mut out, &v).unwrap();
		out.write_all(b"\n").unwrap();
	}
	out.flush().unwrap();
	let _ = std::fs::remove_dir_all(&scratch);
}
