//! Replays change scripts against the CLI's own action logic: the real `make_config` built from a
//! real argv (cfg(watchexec_verif) module of the CLI library) on a real `Watchexec`, with the
//! commands it spawns replaced by simulated children (spawn interceptor) so that everything runs
//! in virtual time.
//!
//! usage: cli_driver <scripts.ndjson> <traces.ndjson> [--threads N]

use std::{
	ffi::OsString,
	io::{BufRead, BufWriter, Write},
	path::PathBuf,
	sync::Arc,
	time::Duration,
};

use serde::Deserialize;
use tokio::time::Instant;
use verif_harness::{
	simchild::{Kid, SimFactory},
	trace::{write_events, Ev, Recorder},
};
use watchexec::Watchexec;
use watchexec_cli::verif::{args_from, make_config, new_state};
use watchexec_events::{
	filekind::{DataChange, FileEventKind, ModifyKind},
	Event, FileType, Priority, Source, Tag,
};
use watchexec_signals::Signal;

#[derive(Clone, Debug, Deserialize)]
struct Script {
	id: String,
	/// extra command-line options (mode, --postpone, --stop-timeout ...)
	argv: Vec<String>,
	/// what the spec needs to know about them
	mode: String,
	postpone: bool,
	debounce: u64,
	stop_timeout: u64,
	#[serde(default)]
	delay_run: u64,
	#[serde(default)]
	stop_signal: i64,
	kids: Vec<Kid>,
	steps: Vec<Step>,
	horizon: u64,
}

#[derive(Clone, Debug, Deserialize)]
struct Step {
	at: u64,
	/// "change" | "empty" | "INT" | "TERM" | "HUP" | "USR1"
	ev: String,
}

async fn run_script(script: Script, slot: verif_harness::pool::Slot) -> Vec<Ev> {
	let start = Instant::now();
	let rec = Recorder::new(Arc::new(move || {
		i64::try_from(start.elapsed().as_millis()).unwrap_or(i64::MAX)
	}));
	*slot.lock().unwrap() = Some(rec.clone());
	{
		let inner = rec.sink();
		watchexec_supervisor::verif::set_thread_sink(Some(Arc::new(move |name, a, b| {
			if !(name.starts_with("fs_") || name == "cfg_wait") {
				inner(name, a, b);
			}
		})));
	}
	let factory = SimFactory::new(rec.clone(), script.kids.clone());
	{
		let factory = factory.clone();
		watchexec_supervisor::verif::set_spawn_interceptor(Some(Arc::new(move |cmd| {
			factory.on_intercept(cmd);
		})));
	}

	let mut reset = Ev::new("reset").a(script.id.clone()).b(script.mode.clone());
	reset.x = script.debounce as i64;
	reset.n = script.stop_timeout as i64;
	reset.w = i64::from(script.postpone);
	reset.id = script.delay_run as i64;
	reset.pending = Some(vec![script.stop_signal]);
	rec.rec(reset);
	// the simulated commands of this script, by spawn index (for the trace specification)
	for (i, k) in script.kids.iter().enumerate() {
		let mut e = Ev::new("kid").n(i as i64 + 1);
		e.x = k.self_at.map_or(-1, |v| v as i64);
		e.w = k.sig_delay.map_or(-1, |v| v as i64);
		rec.rec(e);
	}

	let mut argv: Vec<OsString> = vec!["watchexec".into(), "--quiet".into(), "-w".into(), "/dev/null".into(),
		"--project-origin".into(), "/".into(), "--debounce".into(), format!("{}ms", script.debounce).into(),
		"--stop-timeout".into(), format!("{}ms", script.stop_timeout).into()];
	argv.extend(script.argv.iter().map(OsString::from));
	argv.extend(["--".into(), "true".into()]);
	let args = match args_from(argv).await {
		Ok(a) => a,
		Err(e) => {
			rec.rec(Ev::new("driver_error").a(format!("args: {e}")));
			return rec.take();
		}
	};
	let state = new_state(&args).await.expect("state");
	let config = make_config(&args, &state).expect("config");
	let wx = Arc::new(Watchexec::with_config(config).expect("watchexec"));
	if !script.postpone {
		// what run_watchexec() does before entering the main loop
		rec.rec(Ev::new("kick"));
		wx.send_event(Event::default(), Priority::Urgent).await.expect("kick");
	}
	let main = wx.main();
	{
		let rec = rec.clone();
		tokio::spawn(async move {
			let how = match main.await {
				Ok(Ok(())) => "ok",
				Ok(Err(_)) => "err",
				Err(_) => "panicked",
			};
			rec.rec(Ev::new("main_end").a(how));
		});
	}

	for (i, step) in script.steps.iter().enumerate() {
		let at = start + Duration::from_millis(step.at);
		if at > Instant::now() {
			tokio::time::sleep_until(at).await;
		}
		let id = (i + 1) as i64;
		let (event, prio) = match step.ev.as_str() {
			"change" => (
				Event {
					tags: vec![
						Tag::Source(Source::Filesystem),
						Tag::FileEventKind(FileEventKind::Modify(ModifyKind::Data(DataChange::Content))),
						Tag::Path { path: PathBuf::from("/proj/src/main.rs"), file_type: Some(FileType::File) },
					],
					metadata: [("verif-id".to_string(), vec![id.to_string()])].into_iter().collect(),
				},
				Priority::Normal,
			),
			"empty" => (
				Event { tags: vec![], metadata: [("verif-id".to_string(), vec![id.to_string()])].into_iter().collect() },
				Priority::Normal,
			),
			sig => {
				let s = match sig {
					"INT" => Signal::Interrupt,
					"TERM" => Signal::Terminate,
					"HUP" => Signal::Hangup,
					_ => Signal::User1,
				};
				(
					Event {
						tags: vec![Tag::Source(Source::Os), Tag::Signal(s)],
						metadata: [("verif-id".to_string(), vec![id.to_string()])].into_iter().collect(),
					},
					if matches!(s, Signal::Interrupt | Signal::Terminate) { Priority::Urgent } else { Priority::High },
				)
			}
		};
		rec.rec(Ev::new("change").id(id).a(step.ev.clone()));
		let wx = wx.clone();
		tokio::spawn(async move {
			let _ = wx.send_event(event, prio).await;
		});
	}

	let end = start + Duration::from_millis(script.horizon);
	if end > Instant::now() {
		tokio::time::sleep_until(end).await;
	}
	tokio::task::yield_now().await;
	rec.rec(Ev::new("end"));
	rec.stop();
	watchexec_supervisor::verif::set_thread_sink(None);
	watchexec_supervisor::verif::set_spawn_interceptor(None);
	rec.take()
}

fn main() {
	let args: Vec<String> = std::env::args().collect();
	let (scripts_path, out_path) = (&args[1], &args[2]);
	let mut threads = 8usize;
	if args.len() > 4 && args[3] == "--threads" {
		threads = args[4].parse().unwrap();
	}
	std::panic::set_hook(Box::new(|_| {}));
	let file = std::fs::File::open(scripts_path).expect("scripts file");
	let scripts: Vec<Script> = std::io::BufReader::new(file)
		.lines()
		.map(|l| l.unwrap())
		.filter(|l| !l.trim().is_empty())
		.map(|l| serde_json::from_str(&l).expect("script json"))
		.collect();
	let scripts = Arc::new(scripts);
	let results = verif_harness::pool::run_pool(
		scripts,
		threads,
		|s: &Script| s.id.clone(),
		Arc::new(|script: Script, slot| {
			let rt = tokio::runtime::Builder::new_current_thread().enable_all().start_paused(true).build().unwrap();
			let events = rt.block_on(run_script(script, slot));
			drop(rt);
			events
		}),
		std::time::Duration::from_secs(60),
		std::time::Duration::from_secs(8),
	);
	let mut out = BufWriter::new(std::fs::File::create(out_path).expect("out file"));
	for events in results.values() {
		write_events(&mut out, events).unwrap();
	}
	out.flush().unwrap();
	// threads blocked for good by a deadlock in the code under test are left behind
	std::process::exit(0);
}
