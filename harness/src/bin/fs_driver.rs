//! Replays reconfiguration scripts against the real filesystem-watcher worker
//! (`watchexec::sources::fs::worker`) with a fake `notify::Watcher` installed through the
//! `cfg(watchexec_verif)` factory hook, and records every call.
//!
//! usage: fs_driver <scripts.ndjson> <traces.ndjson> [--threads N]
//!
//! A script changes the configuration either while the worker is idle or *inside* the k-th
//! create / watch / unwatch call of the watcher (the deterministic form of "another thread changed
//! the configuration while the worker was applying the previous change").

use std::{
	collections::{BTreeMap, BTreeSet},
	io::{BufRead, BufWriter, Write},
	path::{Path, PathBuf},
	sync::{
		atomic::{AtomicUsize, Ordering},
		Arc, Mutex,
	},
	time::Duration,
};

use async_priority_channel as priority;
use serde::Deserialize;
use tokio::{sync::mpsc, time::Instant};
use verif_harness::trace::{write_events, Ev, Recorder};
use watchexec::{
	error::{FsWatcherError, RuntimeError},
	sources::fs::{verif as fsverif, worker, Watcher},
	Config, WatchedPath,
};

#[derive(Clone, Debug, Deserialize)]
struct Script {
	id: String,
	/// capacity of the event queue the worker feeds (the callback uses try_send)
	#[serde(default = "default_cap")]
	ev_cap: u64,
	/// capacity of the runtime-error channel the worker reports failing watch / unwatch calls to
	#[serde(default = "default_err_cap")]
	err_cap: usize,
	init_paths: Vec<String>,
	#[serde(default)]
	fail_watch: Vec<String>,
	#[serde(default)]
	fail_unwatch: Vec<String>,
	steps: Vec<Step>,
}

#[derive(Clone, Debug, Deserialize)]
struct Step {
	/// "idle": applied by the driver once the worker has gone quiet; "call": applied inside the
	/// k-th call (create / watch / unwatch, counted from 1 over the whole scenario) of the watcher
	at: String,
	#[serde(default)]
	k: usize,
	#[serde(default)]
	set_paths: Option<Vec<String>>,
	#[serde(default)]
	set_kind: Option<String>,
	#[serde(default)]
	other: bool,
	/// the watcher's own callback delivers this many filesystem events in one go ...
	#[serde(default)]
	emit: usize,
	/// ... followed by this many errors
	#[serde(default)]
	emit_err: usize,
}

fn default_cap() -> u64 {
	1024
}

fn default_err_cap() -> usize {
	64
}

/// "a" = /vfs/a watched recursively, "a!" = /vfs/a watched non-recursively
fn watched(name: &str) -> WatchedPath {
	if let Some(n) = name.strip_suffix('!') {
		WatchedPath::non_recursive(PathBuf::from(format!("/vfs/{n}")))
	} else {
		WatchedPath::recursive(PathBuf::from(format!("/vfs/{name}")))
	}
}

fn name_of(path: &Path, recursive: bool) -> String {
	let n = path.file_name().map(|s| s.to_string_lossy().to_string()).unwrap_or_default();
	if recursive {
		n
	} else {
		format!("{n}!")
	}
}

fn kind_of(name: &str) -> Watcher {
	match name {
		"poll" => Watcher::Poll(Duration::from_millis(100)),
		// the same backend with another interval is another watcher kind
		"poll2" => Watcher::Poll(Duration::from_millis(700)),
		_ => Watcher::Native,
	}
}

fn kind_name(k: Watcher) -> &'static str {
	match k {
		Watcher::Native => "native",
		Watcher::Poll(d) if d == Duration::from_millis(700) => "poll2",
		_ => "poll",
	}
}

struct Shared {
	rec: Recorder,
	config: Arc<Config>,
	calls: AtomicUsize,
	in_call: Mutex<BTreeMap<usize, Vec<Step>>>,
	fail_watch: BTreeSet<String>,
	fail_unwatch: BTreeSet<String>,
	/// the live watcher: (serial, kind, registered path -> recursive)
	live: Mutex<Option<(usize, &'static str, BTreeMap<PathBuf, bool>)>>,
	serial: AtomicUsize,
	/// the event callback the worker handed to the live watcher
	handler: Mutex<Option<fsverif::Handler>>,
}

impl Shared {
	fn apply(&self, step: &Step) {
		if let Some(paths) = &step.set_paths {
			let mut ev = Ev::new("cfg").a("paths");
			ev.kids = Some(paths.iter().map(|p| serde_json::json!(p)).collect());
			self.rec.rec(ev);
			self.config.pathset(paths.iter().map(|p| watched(p)));
		}
		if let Some(kind) = &step.set_kind {
			self.rec.rec(Ev::new("cfg").a("kind").b(kind.clone()));
			self.config.file_watcher(kind_of(kind));
		}
		if step.other {
			self.rec.rec(Ev::new("cfg").a("other"));
			self.config.signal_change();
		}
	}

	/// a call of the watcher begins: count it and apply what the script scheduled inside it
	fn call(&self) {
		let k = self.calls.fetch_add(1, Ordering::SeqCst) + 1;
		let steps = self.in_call.lock().unwrap().remove(&k).unwrap_or_default();
		for s in steps {
			self.apply(&s);
		}
	}
}

struct FakeWatcher {
	shared: Arc<Shared>,
	serial: usize,
}

impl notify::Watcher for FakeWatcher {
	fn new<F: notify::EventHandler>(_: F, _: notify::Config) -> notify::Result<Self> {
		unreachable!("created through the factory")
	}

	fn watch(&mut self, path: &Path, mode: notify::RecursiveMode) -> notify::Result<()> {
		let rec = mode == notify::RecursiveMode::Recursive;
		let name = name_of(path, rec);
		let fail = self.shared.fail_watch.contains(&name);
		self.shared.rec.rec(Ev::new("watch").a(name).b(if fail { "fail" } else { "ok" }));
		self.shared.call();
		if fail {
			return Err(notify::Error::generic("injected watch failure"));
		}
		if let Some((serial, _, reg)) = self.shared.live.lock().unwrap().as_mut() {
			if *serial == self.serial {
				reg.insert(path.to_path_buf(), rec);
			}
		}
		Ok(())
	}

	fn unwatch(&mut self, path: &Path) -> notify::Result<()> {
		let rec = self
			.shared
			.live
			.lock()
			.unwrap()
			.as_ref()
			.and_then(|(_, _, reg)| reg.get(path).copied())
			.unwrap_or(true);
		let name = name_of(path, rec);
		let fail = self.shared.fail_unwatch.contains(&name);
		self.shared.rec.rec(Ev::new("unwatch").a(name).b(if fail { "fail" } else { "ok" }));
		self.shared.call();
		if fail {
			return Err(notify::Error::generic("injected unwatch failure"));
		}
		if let Some((serial, _, reg)) = self.shared.live.lock().unwrap().as_mut() {
			if *serial == self.serial {
				reg.remove(path);
			}
		}
		Ok(())
	}

	fn kind() -> notify::WatcherKind {
		notify::WatcherKind::NullWatcher
	}
}

impl Drop for FakeWatcher {
	fn drop(&mut self) {
		let mut live = self.shared.live.lock().unwrap();
		if matches!(live.as_ref(), Some((serial, _, _)) if *serial == self.serial) {
			*live = None;
		}
		self.shared.rec.rec(Ev::new("drop_watcher").x(self.serial as i64));
	}
}

async fn run_script(script: Script, slot: verif_harness::pool::Slot) -> Vec<Ev> {
	let start = Instant::now();
	let rec = Recorder::new(Arc::new(move || {
		i64::try_from(start.elapsed().as_millis()).unwrap_or(i64::MAX)
	}));
	*slot.lock().unwrap() = Some(rec.clone());
	watchexec_supervisor::verif::set_thread_sink(Some(rec.sink()));

	let config = Arc::new(Config::default());
	let mut in_call: BTreeMap<usize, Vec<Step>> = BTreeMap::new();
	for s in &script.steps {
		if s.at == "call" {
			in_call.entry(s.k).or_default().push(s.clone());
		}
	}
	let shared = Arc::new(Shared {
		rec: rec.clone(),
		config: config.clone(),
		calls: AtomicUsize::new(0),
		in_call: Mutex::new(in_call),
		fail_watch: script.fail_watch.iter().cloned().collect(),
		fail_unwatch: script.fail_unwatch.iter().cloned().collect(),
		live: Mutex::new(None),
		serial: AtomicUsize::new(0),
		handler: Mutex::new(None),
	});

	let mut reset = Ev::new("reset").a(script.id.clone());
	reset.kids = Some(script.init_paths.iter().map(|p| serde_json::json!(p)).collect());
	reset.pending = None;
	reset.x = script.ev_cap as i64;
	reset.fw = Some(script.fail_watch.clone());
	reset.fu = Some(script.fail_unwatch.clone());
	rec.rec(reset);
	config.pathset(script.init_paths.iter().map(|p| watched(p)));

	{
		let shared = shared.clone();
		fsverif::set_factory(Some(Arc::new(move |kind, handler| {
			*shared.handler.lock().unwrap() = Some(handler);
			let serial = shared.serial.fetch_add(1, Ordering::SeqCst) + 1;
			shared.rec.rec(Ev::new("create").a(kind_name(kind)).x(serial as i64));
			*shared.live.lock().unwrap() = Some((serial, kind_name(kind), BTreeMap::new()));
			shared.call();
			Ok(Box::new(FakeWatcher { shared: shared.clone(), serial }) as Box<dyn notify::Watcher + Send>)
		})));
	}

	let (er_s, mut er_r) = mpsc::channel::<RuntimeError>(script.err_cap.max(1));
	let (ev_s, ev_r) = priority::bounded::<watchexec_events::Event, watchexec_events::Priority>(script.ev_cap);
	{
		let rec = rec.clone();
		tokio::spawn(async move {
			while let Some(err) = er_r.recv().await {
				let (op, path) = match &err {
					RuntimeError::FsWatcher { err: FsWatcherError::PathAdd { path, .. }, .. } => ("watch", path.clone()),
					RuntimeError::FsWatcher { err: FsWatcherError::PathRemove { path, .. }, .. } => ("unwatch", path.clone()),
					RuntimeError::EventChannelTrySend { .. } => ("overflow", PathBuf::new()),
					RuntimeError::FsWatcher { err: FsWatcherError::Event(_), .. } => ("callback", PathBuf::new()),
					_ => ("other", PathBuf::new()),
				};
				rec.rec(Ev::new("error").a(op).b(path.file_name().map(|s| s.to_string_lossy().to_string()).unwrap_or_default()));
			}
		});
	}
	let task = tokio::spawn(worker(config.clone(), er_s, ev_s));

	tokio::time::sleep(Duration::from_millis(10)).await;
	for s in script.steps.iter().filter(|s| s.at == "idle") {
		rec.rec(Ev::new("idle"));
		shared.apply(s);
		if s.emit > 0 || s.emit_err > 0 {
			rec.rec(Ev::new("emit").x(s.emit as i64).n(s.emit_err as i64));
			let mut delivered_ok = true;
			if let Some(h) = shared.handler.lock().unwrap().as_mut() {
				for i in 0..s.emit {
					let ev = notify::Event::new(notify::EventKind::Create(notify::event::CreateKind::File))
						.add_path(PathBuf::from(format!("/vfs/a/file{i}")));
					h.handle_event(Ok(ev));
				}
				for _ in 0..s.emit_err {
					h.handle_event(Err(notify::Error::generic("injected callback error")));
				}
			}
			// what reached the event queue: count, and whether each is the documented shape
			let mut n = 0;
			while let Ok((ev, prio)) = ev_r.try_recv() {
				n += 1;
				let shape_ok = prio == watchexec_events::Priority::Normal
					&& ev.tags.iter().any(|t| matches!(t, watchexec_events::Tag::Source(watchexec_events::Source::Filesystem)))
					&& ev.tags.iter().any(|t| matches!(t, watchexec_events::Tag::FileEventKind(_)))
					&& ev.paths().count() == 1;
				delivered_ok &= shape_ok;
			}
			rec.rec(Ev::new("event_out").x(n).a(if delivered_ok { "ok" } else { "bad" }));
		}
		tokio::time::sleep(Duration::from_millis(10)).await;
	}
	tokio::time::sleep(Duration::from_millis(50)).await;

	let mut end = Ev::new("end");
	{
		let live = shared.live.lock().unwrap();
		match live.as_ref() {
			None => end = end.a("none"),
			Some((_, kind, reg)) => {
				end = end.a(*kind);
				end.kids = Some(reg.iter().map(|(p, r)| serde_json::json!(name_of(p, *r))).collect());
			}
		}
	}
	if end.kids.is_none() {
		end.kids = Some(Vec::new());
	}
	rec.rec(end);
	rec.stop();
	task.abort();
	let _ = task.await;
	fsverif::set_factory(None);
	watchexec_supervisor::verif::set_thread_sink(None);
	rec.take()
}

fn main() {
	let args: Vec<String> = std::env::args().collect();
	let (scripts_path, out_path) = (&args[1], &args[2]);
	let mut threads = 8usize;
	if args.len() > 4 && args[3] == "--threads" {
		threads = args[4].parse().unwrap();
	}
	std::panic::set_hook(Box::new(|_| {}));
	let file = std::fs::File::open(scripts_path).expect("scripts file");
	let scripts: Vec<Script> = std::io::BufReader::new(file)
		.lines()
		.map(|l| l.unwrap())
		.filter(|l| !l.trim().is_empty())
		.map(|l| serde_json::from_str(&l).expect("script json"))
		.collect();
	let scripts = Arc::new(scripts);
	let results = verif_harness::pool::run_pool(
		scripts,
		threads,
		|s: &Script| s.id.clone(),
		Arc::new(|script: Script, slot| {
			let rt = tokio::runtime::Builder::new_current_thread().enable_all().build().unwrap();
			let events = rt.block_on(run_script(script, slot));
			drop(rt);
			events
		}),
		std::time::Duration::from_secs(60),
		std::time::Duration::from_secs(8),
	);
	let mut out = BufWriter::new(std::fs::File::create(out_path).expect("out file"));
	for events in results.values() {
		write_events(&mut out, events).unwrap();
	}
	out.flush().unwrap();
	// threads blocked for good by a deadlock in the code under test are left behind
	std::process::exit(0);
}
