//! Replays job scripts against the real `watchexec-supervisor` and records what it did.
//!
//! usage: job_driver <scripts.ndjson> <traces.ndjson> [--threads N] [--reps R] [--real-time]
//!
//! Every script runs on its own current-thread tokio runtime with a paused clock, so all
//! timestamps are exact virtual milliseconds. The only randomness is tokio's `select!`.

use std::{
	collections::BTreeMap,
	io::{BufRead, BufWriter, Write},
	sync::{
		atomic::{AtomicBool, AtomicUsize, Ordering},
		Arc, Mutex,
	},
	time::Duration,
};

use serde::Deserialize;
use tokio::time::Instant;
use verif_harness::{
	simchild::{state_class, Kid, SimFactory},
	trace::{write_events, Ev, Recorder},
};
use watchexec_signals::Signal;
use watchexec_supervisor::{
	command::{Command, Program},
	job::{start_job, Control, Job, Ticket},
};

#[derive(Clone, Debug, Deserialize)]
struct Script {
	id: String,
	#[serde(default)]
	kids: Vec<Kid>,
	steps: Vec<Step>,
	horizon: u64,
}

#[derive(Clone, Debug, Deserialize)]
struct Step {
	at: u64,
	op: String,
	#[serde(default)]
	sig: Option<String>,
	#[serde(default)]
	grace: Option<u64>,
	#[serde(default)]
	tag: Option<i64>,
	#[serde(default)]
	waiters: Option<u32>,
	#[serde(default)]
	settle: bool,
	/// let every other task run until nothing is left to do at this instant before the call (replayed
	/// specification behaviours: the environment acts only when the task is at rest)
	#[serde(default)]
	at_rest: bool,
	#[serde(default)]
	delay: Option<u64>,
}

fn parse_signal(s: &str) -> Signal {
	match s {
		"HUP" => Signal::Hangup,
		"KILL" => Signal::ForceStop,
		"INT" => Signal::Interrupt,
		"QUIT" => Signal::Quit,
		"TERM" => Signal::Terminate,
		"USR1" => Signal::User1,
		"USR2" => Signal::User2,
		other => Signal::Custom(other.parse().expect("signal name or number")),
	}
}

async fn run_script(script: Script, paused: bool) -> Vec<Ev> {
	let start = Instant::now();
	let rec = Recorder::new(Arc::new(move || {
		i64::try_from(start.elapsed().as_millis()).unwrap_or(i64::MAX)
	}));
	if paused {
		watchexec_supervisor::verif::set_thread_sink(Some(rec.sink()));
	} else {
		watchexec_supervisor::verif::set_global_sink(Some(rec.sink()));
	}

	let mut reset = Ev::new("reset").a(script.id.clone());
	reset.kids = Some(
		script
			.kids
			.iter()
			.map(|k| {
				serde_json::json!({
					"self_at": k.self_at.map_or(-1, |v| v as i64),
					"sig_delay": k.sig_delay.map_or(-1, |v| v as i64),
					"fail": k.fail, "kill_fail": k.kill_fail, "sig_fail": k.sig_fail,
					"code": k.code,
				})
			})
			.collect(),
	);
	rec.rec(reset);

	let factory = SimFactory::new(rec.clone(), script.kids.clone());
	// the simulated child is installed by the spawn interceptor (after the job's own hook, if any), so
	// that spawn hooks can be replaced and unset like any other control
	{
		let factory = factory.clone();
		watchexec_supervisor::verif::set_spawn_interceptor(Some(Arc::new(move |cmd| factory.on_intercept(cmd))));
	}
	let (job, task) = start_job(Arc::new(Command {
		program: Program::Exec {
			prog: "/bin/true".into(),
			args: Vec::new(),
		},
		options: Default::default(),
	}));

	// task end watcher
	{
		let rec = rec.clone();
		tokio::spawn(async move {
			let how = match task.await {
				Ok(()) => "ok",
				Err(e) if e.is_panic() => "panicked",
				Err(_) => "cancelled",
			};
			rec.rec(Ev::new("task_end").a(how));
		});
	}

	let mut job: Option<Job> = Some(job);
	let mut spare: Vec<Job> = Vec::new();
	let resolved: Arc<Mutex<BTreeMap<i64, bool>>> = Arc::new(Mutex::new(BTreeMap::new()));
	// every ticket stays alive until the scenario ends, so flag addresses are never reused
	let mut keep: Vec<Ticket> = Vec::new();

	for (idx, step) in script.steps.iter().enumerate() {
		let id = (idx + 1) as i64;
		let at = start + Duration::from_millis(step.at);
		if at > Instant::now() {
			tokio::time::sleep_until(at).await;
		}
		if step.settle {
			tokio::task::yield_now().await;
		}
		if step.at_rest {
			for _ in 0..24 {
				tokio::task::yield_now().await;
			}
		}

		let sig = step.sig.as_deref().map(parse_signal);
		let grace = Duration::from_millis(step.grace.unwrap_or(0));
		let ticket: Option<Ticket> = match (step.op.as_str(), job.as_ref()) {
			("drop_handle", _) => {
				job = None;
				spare.clear();
				None
			}
			("clone_handle", Some(j)) => {
				spare.push(j.clone());
				None
			}
			(_, None) => None,
			("start", Some(j)) => Some(j.start()),
			("stop", Some(j)) => Some(j.stop()),
			("stop_with_signal", Some(j)) => {
				Some(j.stop_with_signal(sig.expect("sig"), grace))
			}
			("restart", Some(j)) => Some(j.restart()),
			("restart_with_signal", Some(j)) => {
				Some(j.restart_with_signal(sig.expect("sig"), grace))
			}
			("try_restart", Some(j)) => Some(j.try_restart()),
			("try_restart_with_signal", Some(j)) => {
				Some(j.try_restart_with_signal(sig.expect("sig"), grace))
			}
			("signal", Some(j)) => Some(j.signal(sig.expect("sig"))),
			("delete", Some(j)) => Some(j.delete()),
			("delete_now", Some(j)) => Some(j.delete_now()),
			("to_wait", Some(j)) => Some(j.to_wait()),
			("run", Some(j)) => {
				let rec = rec.clone();
				Some(j.run(move |ctx| {
					rec.rec(
						Ev::new("marker")
							.id(id)
							.a(state_class(ctx.current))
							.b(ctx.previous.map_or("none".into(), state_class)),
					);
				}))
			}
			("run_async", Some(j)) => {
				let rec = rec.clone();
				let delay = step.delay.unwrap_or(0);
				Some(j.run_async(move |ctx| {
					rec.rec(
						Ev::new("marker")
							.id(id)
							.a(state_class(ctx.current))
							.b(ctx.previous.map_or("none".into(), state_class)),
					);
					Box::new(async move {
						if delay > 0 {
							tokio::time::sleep(Duration::from_millis(delay)).await;
						}
						rec.rec(Ev::new("marker_end").id(id));
					})
				}))
			}
			("set_hook", Some(j)) => {
				let factory = factory.clone();
				let tag = step.tag.unwrap_or(0);
				Some(j.set_spawn_hook(move |cmd, ctx| factory.hook_only(tag, cmd, ctx)))
			}
			("set_async_hook", Some(j)) => {
				let factory = factory.clone();
				let tag = step.tag.unwrap_or(0);
				Some(j.set_spawn_async_hook(move |cmd, ctx| {
					factory.hook_only(tag, cmd, ctx);
					Box::new(async {})
				}))
			}
			("unset_hook", Some(j)) => Some(j.unset_spawn_hook()),
			("set_async_error_handler", Some(j)) => {
				let rec = rec.clone();
				let tag = step.tag.unwrap_or(0);
				Some(j.set_async_error_handler(move |err| {
					let msg = err.get().map_or(String::new(), ToString::to_string);
					rec.rec(Ev::new("err").a(msg).x(tag));
					Box::new(async {})
				}))
			}
			("set_error_handler", Some(j)) => {
				let rec = rec.clone();
				let tag = step.tag.unwrap_or(0);
				Some(j.set_error_handler(move |err| {
					let msg = err.get().map_or(String::new(), ToString::to_string);
					rec.rec(Ev::new("err").a(msg).x(tag));
				}))
			}
			("unset_error_handler", Some(j)) => Some(j.unset_error_handler()),
			// single controls of the public enum through Job::control()
			("raw_continue", Some(j)) => Some(j.control(Control::ContinueTryGracefulRestart)),
			("raw_delete", Some(j)) => Some(j.control(Control::Delete)),
			("raw_next_ending", Some(j)) => Some(j.control(Control::NextEnding)),
			(other, _) => panic!("unknown op {other}"),
		};

		let mut ev = Ev::new("send")
			.id(id)
			.a(step.op.clone())
			.b(step.sig.clone().unwrap_or_default())
			.x(i64::try_from(step.grace.unwrap_or(0)).unwrap());
		if step.op == "run_async" {
			ev = ev.x(i64::try_from(step.delay.unwrap_or(0)).unwrap());
		}
		if let Some(tag) = step.tag {
			ev = ev.x(tag);
		}
		if let Some(ticket) = &ticket {
			let (gone, done) = ticket.verif_ids();
			rec.map_flag(done, id);
			rec.map_flag(gone, -1);
			ev = ev.n(1).w(i64::from(step.waiters.unwrap_or(1)));
		}
		rec.rec(ev);

		if let Some(ticket) = ticket {
			keep.push(ticket.clone());
			resolved.lock().unwrap().insert(id, false);
			for w in 0..step.waiters.unwrap_or(1) {
				let ticket = ticket.clone();
				let rec = rec.clone();
				let resolved = resolved.clone();
				tokio::spawn(async move {
					ticket.await;
					resolved.lock().unwrap().insert(id, true);
					rec.rec(Ev::new("resolved").id(id).x(i64::from(w)));
				});
			}
		}
	}

	let end = start + Duration::from_millis(script.horizon);
	if end > Instant::now() {
		tokio::time::sleep_until(end).await;
	}
	tokio::task::yield_now().await;

	let pending: Vec<i64> = resolved
		.lock()
		.unwrap()
		.iter()
		.filter(|(_, done)| !**done)
		.map(|(id, _)| *id)
		.collect();
	let mut end = Ev::new("end").x(pending.len() as i64);
	end.pending = Some(pending);
	rec.rec(end);
	rec.stop();
	if paused {
		watchexec_supervisor::verif::set_thread_sink(None);
		watchexec_supervisor::verif::set_spawn_interceptor(None);
	} else {
		watchexec_supervisor::verif::set_global_sink(None);
	}
	drop(job);
	drop(spare);
	drop(keep);
	rec.take()
}

fn main() {
	let args: Vec<String> = std::env::args().collect();
	let scripts_path = &args[1];
	let out_path = &args[2];
	let mut threads = 8usize;
	let mut reps = 1usize;
	let mut paused = true;
	let mut i = 3;
	while i < args.len() {
		match args[i].as_str() {
			"--threads" => {
				threads = args[i + 1].parse().unwrap();
				i += 1;
			}
			"--reps" => {
				reps = args[i + 1].parse().unwrap();
				i += 1;
			}
			"--real-time" => paused = false,
			other => panic!("unknown arg {other}"),
		}
		i += 1;
	}
	if !paused {
		threads = 1;
	}

	// a panic in the code under test is data (task_end{panicked}); keep stderr quiet
	std::panic::set_hook(Box::new(|_| {}));

	let file = std::fs::File::open(scripts_path).expect("scripts file");
	let mut scripts: Vec<Script> = Vec::new();
	for line in std::io::BufReader::new(file).lines() {
		let line = line.unwrap();
		if line.trim().is_empty() {
			continue;
		}
		let script: Script = serde_json::from_str(&line).expect("script json");
		for r in 0..reps {
			let mut s = script.clone();
			if reps > 1 {
				s.id = format!("{}#{}", s.id, r);
			}
			scripts.push(s);
		}
	}

	let scripts = Arc::new(scripts);
	let next = Arc::new(AtomicUsize::new(0));
	let results: Arc<Mutex<BTreeMap<usize, Vec<Ev>>>> = Arc::new(Mutex::new(BTreeMap::new()));
	let failed = Arc::new(AtomicBool::new(false));

	let mut handles = Vec::new();
	for _ in 0..threads {
		let scripts = scripts.clone();
		let next = next.clone();
		let results = results.clone();
		let failed = failed.clone();
		handles.push(std::thread::spawn(move || loop {
			let i = next.fetch_add(1, Ordering::SeqCst);
			if i >= scripts.len() {
				break;
			}
			let script = scripts[i].clone();
			let events = if paused {
				let rt = tokio::runtime::Builder::new_current_thread()
					.enable_all()
					.start_paused(true)
					.build()
					.unwrap();
				let r = std::panic::catch_unwind(std::panic::AssertUnwindSafe(|| {
					rt.block_on(run_script(script, true))
				}));
				match r {
					Ok(ev) => ev,
					Err(_) => {
						failed.store(true, Ordering::SeqCst);
						vec![Ev::new("driver_panic").a(scripts[i].id.clone())]
					}
				}
			} else {
				let rt = tokio::runtime::Builder::new_multi_thread()
					.worker_threads(4)
					.enable_all()
					.build()
					.unwrap();
				rt.block_on(run_script(script, false))
			};
			results.lock().unwrap().insert(i, events);
		}));
	}
	for h in handles {
		h.join().unwrap();
	}

	let mut out = BufWriter::new(std::fs::File::create(out_path).expect("out file"));
	let results = results.lock().unwrap();
	for events in results.values() {
		write_events(&mut out, events).unwrap();
	}
	out.flush().unwrap();
	if failed.load(Ordering::SeqCst) {
		eprintln!("job_driver: a scenario panicked in the driver itself");
		std::process::exit(2);
	}
}
