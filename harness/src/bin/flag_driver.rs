//! Multi-threaded stress of the supervisor's `Flag` (the future behind every ticket), recorded at the
//! trace points inside `poll` and `raise`, for validation against Flag.tla.
//!
//! One scenario = one fresh flag, `tasks` threads each waiting for it the way an executor would (poll,
//! park until the waker is called, poll again) and `raisers` threads calling `raise()`, all released
//! together and jittered by seeded spins.  The recorder's lock gives the events one total order; the
//! trace points for the lock-protected steps are emitted while the flag's mutex is held, the one for
//! `raise` before its store, those for the lock-free loads after them (see Flag.tla / FlagTrace.tla
//! for why that order is sound).
//!
//! usage: flag_driver <scripts.ndjson> <traces.ndjson>

use std::{
	cell::Cell,
	future::Future,
	io::{BufRead, BufWriter, Write},
	pin::Pin,
	sync::{
		atomic::{AtomicBool, Ordering},
		Arc, Barrier, Mutex,
	},
	task::{Context, Poll, Wake, Waker},
	thread,
	time::{Duration, Instant},
};

use serde::Deserialize;
use verif_harness::trace::{write_events, Ev};
use watchexec_supervisor::verif::{self, Flag};

#[derive(Clone, Debug, Deserialize)]
struct Script {
	id: String,
	tasks: usize,
	raisers: usize,
	seed: u64,
	/// poll once more after having been told "pending", without waiting for the waker
	#[serde(default)]
	spurious: bool,
	/// raise before any task starts
	#[serde(default)]
	early: bool,
}

thread_local! {
	/// who is running on this thread: tasks 1.., raisers 101..
	static WHO: Cell<i64> = const { Cell::new(0) };
}

type Log = Arc<Mutex<Vec<Ev>>>;

fn rec(log: &Log, e: &str, who: i64, x: i64) {
	let mut l = log.lock().unwrap();
	l.push(Ev::new(e).n(who).x(x));
}

struct ThreadWaker {
	who: i64,
	log: Log,
	thread: thread::Thread,
	flagged: AtomicBool,
}

impl Wake for ThreadWaker {
	fn wake(self: Arc<Self>) {
		self.wake_by_ref();
	}
	fn wake_by_ref(self: &Arc<Self>) {
		rec(&self.log, "woken", self.who, 0);
		self.flagged.store(true, Ordering::SeqCst);
		self.thread.unpark();
	}
}

fn spin(n: u64) {
	for i in 0..n {
		std::hint::black_box(i);
	}
}

fn xorshift(s: &mut u64) -> u64 {
	*s ^= *s << 13;
	*s ^= *s >> 7;
	*s ^= *s << 17;
	*s
}

fn run_script(s: &Script) -> Vec<Ev> {
	let log: Log = Arc::new(Mutex::new(Vec::new()));
	log.lock().unwrap().push(
		Ev::new("reset").a(s.id.clone()).n(s.tasks as i64).x(if s.early { 1 } else { s.raisers as i64 }).w(i64::from(s.spurious)),
	);
	let flag = Flag::new(false);
	let fid = flag.verif_id();
	{
		let log = log.clone();
		verif::set_global_sink(Some(Arc::new(move |name, a, b| {
			if a != fid {
				return;
			}
			let who = WHO.with(Cell::get);
			rec(&log, name, who, b as i64);
		})));
	}
	if s.early {
		WHO.with(|w| w.set(101));
		flag.raise();
		rec(&log, "raised", 101, 0);
	}
	let barrier = Arc::new(Barrier::new(s.tasks + if s.early { 0 } else { s.raisers }));
	let mut handles = Vec::new();
	for t in 1..=s.tasks {
		let (flag, log, barrier, sc) = (flag.clone(), log.clone(), barrier.clone(), s.clone());
		handles.push(thread::spawn(move || {
			let who = t as i64;
			WHO.with(|w| w.set(who));
			let mut rng = sc.seed.wrapping_mul(0x9E37_79B9_7F4A_7C15).wrapping_add(t as u64) | 1;
			let tw = Arc::new(ThreadWaker { who, log: log.clone(), thread: thread::current(), flagged: AtomicBool::new(false) });
			let waker = Waker::from(tw.clone());
			let mut cx = Context::from_waker(&waker);
			let mut flag = flag;
			barrier.wait();
			spin(xorshift(&mut rng) % 3000);
			let mut polls = 0;
			loop {
				rec(&log, "poll_start", who, 0);
				polls += 1;
				match Pin::new(&mut flag).poll(&mut cx) {
					Poll::Ready(()) => {
						rec(&log, "poll_ret", who, 1);
						break;
					}
					Poll::Pending => rec(&log, "poll_ret", who, 0),
				}
				// spurious polls: several more, close together, around the moment the flag is raised
				if sc.spurious && polls <= 6 {
					spin(xorshift(&mut rng) % 400);
					continue;
				}
				// park until the waker has been called (or give up: a lost wake-up)
				let deadline = Instant::now() + Duration::from_secs(3);
				let mut stuck = false;
				while !tw.flagged.swap(false, Ordering::SeqCst) {
					let now = Instant::now();
					if now >= deadline {
						stuck = true;
						break;
					}
					thread::park_timeout(deadline - now);
				}
				if stuck {
					rec(&log, "stuck", who, 0);
					break;
				}
			}
		}));
	}
	if !s.early {
		for r in 1..=s.raisers {
			let (flag, log, barrier, seed) = (flag.clone(), log.clone(), barrier.clone(), s.seed);
			handles.push(thread::spawn(move || {
				let who = 100 + r as i64;
				WHO.with(|w| w.set(who));
				let mut rng = seed.wrapping_mul(0xD134_2543_DE82_EF95).wrapping_add(r as u64) | 1;
				barrier.wait();
				spin(xorshift(&mut rng) % 3000);
				flag.raise();
				rec(&log, "raised", who, 0);
			}));
		}
	}
	for h in handles {
		let _ = h.join();
	}
	verif::set_global_sink(None);
	rec(&log, "end", 0, 0);
	let mut l = log.lock().unwrap();
	std::mem::take(&mut *l)
}

fn main() {
	let args: Vec<String> = std::env::args().collect();
	let (sp, out_path) = (&args[1], &args[2]);
	let scripts: Vec<Script> = std::io::BufReader::new(std::fs::File::open(sp).expect("scripts"))
		.lines()
		.map_while(Result::ok)
		.filter(|l| !l.trim().is_empty())
		.map(|l| serde_json::from_str(&l).expect("script json"))
		.collect();
	let mut out = BufWriter::new(std::fs::File::create(out_path).expect("out file"));
	// one scenario at a time: the trace points go through the process-wide sink
	for s in &scripts {
		let events = run_script(s);
		write_events(&mut out, &events).unwrap();
	}
	out.flush().unwrap();
}
