//! End-to-end process tier (C08's last clause: "in the CLI an interrupt or terminate signal leads to
//! exactly this shutdown"): the real command-line program (wx_cli, the CLI's own main built from
//! /repo) supervising a real `/bin/sh -c ...` command of one of the classes of proc_driver; once the
//! command has settled the driver sends SIGINT or SIGTERM to the CLI process, waits for it to exit and
//! looks in /proc for processes of the command that are still alive.  Same trace format as proc_driver,
//! validated by ProcTrace.tla (a graceful quit with the CLI's --stop-timeout as its grace).
//!
//! usage: cliproc_driver <scripts.ndjson> <traces.ndjson> [--threads N]

use std::{
	collections::BTreeMap,
	io::{BufRead, BufWriter, Write},
	process::{Command, Stdio},
	sync::{
		atomic::{AtomicUsize, Ordering},
		Arc, Mutex,
	},
	time::{Duration, Instant},
};

use serde::Deserialize;
use verif_harness::trace::{write_events, Ev};

#[derive(Clone, Debug, Deserialize)]
struct Script {
	id: String,
	/// "group" | "session" | "none"
	wrap: String,
	cls: String,
	/// "INT" | "TERM": what the CLI process is sent
	quit_sig: String,
	stop_timeout_ms: u64,
	/// signal the CLI sends to the command (--stop-signal); default TERM
	#[serde(default)]
	stop_signal: Option<String>,
}

fn script_for(cls: &str) -> (&'static str, &'static [&'static str]) {
	match cls {
		"dies" => (": > $VERIF_READY.l; exec sleep 60", &["l"]),
		"ignores" => ("trap '' TERM INT HUP; : > $VERIF_READY.l; exec sleep 60", &["l"]),
		"fork_dies" => ("sleep 60 & : > $VERIF_READY.l; wait", &["l"]),
		"fork_ignores" => (
			"(trap '' TERM INT HUP; : > $VERIF_READY.m; exec sleep 60) & : > $VERIF_READY.l; wait",
			&["l", "m"],
		),
		"ignores_fork_dies" => ("sleep 60 & trap '' TERM INT HUP; : > $VERIF_READY.l; wait; exec sleep 60", &["l"]),
		"daemon" => ("sleep 60 & : > $VERIF_READY.l; exit 0", &["l"]),
		_ => (": > $VERIF_READY.l; exec sleep 60", &["l"]),
	}
}

fn at(mut e: Ev, t: i64) -> Ev {
	e.t = t;
	e
}

fn fatal_pending(pid: i32) -> bool {
	let Ok(status) = std::fs::read_to_string(format!("/proc/{pid}/status")) else { return true };
	let mask = |key: &str| {
		status
			.lines()
			.filter(|l| l.starts_with(key))
			.filter_map(|l| u64::from_str_radix(l[key.len()..].trim(), 16).ok())
			.fold(0u64, |a, b| a | b)
	};
	let pending = mask("SigPnd:") | mask("ShdPnd:");
	let deaf = mask("SigIgn:") | mask("SigCgt:") | mask("SigBlk:");
	let bit = |s: u32| 1u64 << (s - 1);
	pending & bit(9) != 0 || [1u32, 2, 15].iter().any(|s| pending & bit(*s) != 0 && deaf & bit(*s) == 0)
}

/// live processes carrying the marker, except `not` (the CLI itself, which hands the marker down)
fn alive(marker: &str, not: i32) -> Vec<i32> {
	let mut out = Vec::new();
	let needle = format!("VERIF_MARK={marker}");
	let Ok(dir) = std::fs::read_dir("/proc") else { return out };
	for ent in dir.flatten() {
		let Some(pid) = ent.file_name().to_str().and_then(|s| s.parse::<i32>().ok()) else { continue };
		if pid == not {
			continue;
		}
		let Ok(env) = std::fs::read(format!("/proc/{pid}/environ")) else { continue };
		if !env.split(|b| *b == 0).any(|kv| kv == needle.as_bytes()) {
			continue;
		}
		let Ok(stat) = std::fs::read_to_string(format!("/proc/{pid}/stat")) else { continue };
		let state = stat.rfind(')').and_then(|i| stat[i + 1..].split_whitespace().next().and_then(|s| s.chars().next())).unwrap_or('?');
		if state != 'Z' && state != 'X' && !fatal_pending(pid) {
			out.push(pid);
		}
	}
	out
}

fn run_script(s: &Script) -> Vec<Ev> {
	let t0 = Instant::now();
	let ms = move || t0.elapsed().as_millis() as i64;
	let mut evs = vec![
		Ev::new("reset").a(s.id.clone()).b("graceful").x(s.stop_timeout_ms as i64).n(1),
		Ev::new("job").n(1).a(s.wrap.clone()).b(s.cls.clone()).w(1),
	];
	let tmp = tempfile::tempdir().expect("tempdir");
	let w = tmp.path().join("w");
	std::fs::create_dir_all(&w).unwrap();
	let marker = format!("{}_{}", std::process::id(), s.id);
	let ready = tmp.path().join("ready");
	let wx = std::env::current_exe().unwrap().parent().unwrap().join("wx_cli");
	let (text, tokens) = script_for(&s.cls);
	let mut cmd = Command::new(wx);
	cmd.current_dir(&w)
		.arg("-w")
		.arg(&w)
		.arg("--stop-timeout")
		.arg(format!("{}ms", s.stop_timeout_ms))
		.arg(format!("--wrap-process={}", s.wrap));
	if let Some(sig) = &s.stop_signal {
		cmd.arg("--stop-signal").arg(sig);
	}
	cmd.arg("-n").arg("--").arg("/bin/sh").arg("-c").arg(text);
	cmd.env("VERIF_MARK", &marker).env("VERIF_READY", &ready).stdin(Stdio::null()).stdout(Stdio::null()).stderr(Stdio::null());
	let mut child = match cmd.spawn() {
		Ok(c) => c,
		Err(e) => {
			evs.push(Ev::new("driver_error").a(format!("cannot start the CLI: {e}")));
			return evs;
		}
	};
	let cli_pid = child.id() as i32;
	let deadline = Instant::now() + Duration::from_secs(20);
	let mut settled = false;
	while Instant::now() < deadline {
		std::thread::sleep(Duration::from_millis(10));
		if tokens.iter().all(|t| tmp.path().join(format!("ready.{t}")).exists()) {
			settled = true;
			break;
		}
	}
	// the CLI must have noticed a command that ended by itself before it is told to quit
	std::thread::sleep(Duration::from_millis(if s.cls == "daemon" { 150 } else { 30 }));
	evs.push(at(Ev::new("started"), ms()).n(1).x(alive(&marker, cli_pid).len() as i64));
	if !settled {
		evs.push(Ev::new("driver_error").a("the command did not settle"));
	}
	let tq = Instant::now();
	evs.push(at(Ev::new("quit"), ms()).x(1).a(s.quit_sig.clone()));
	unsafe {
		libc::kill(cli_pid, if s.quit_sig == "INT" { libc::SIGINT } else { libc::SIGTERM });
	}
	let limit = Duration::from_millis(s.stop_timeout_ms) + Duration::from_secs(20);
	let mut exited = None;
	while tq.elapsed() < limit {
		match child.try_wait() {
			Ok(Some(st)) => {
				exited = Some(st);
				break;
			}
			Ok(None) => std::thread::sleep(Duration::from_millis(2)),
			Err(_) => break,
		}
	}
	let took = tq.elapsed().as_millis() as i64;
	match exited {
		Some(st) => evs.push(at(Ev::new("main_end"), ms()).a("ok").b(format!("{st}")).x(took)),
		None => {
			evs.push(at(Ev::new("main_hang"), ms()).x(took));
			let _ = child.kill();
			let _ = child.wait();
		}
	}
	let mut left = Vec::new();
	for _ in 0..25 {
		left = alive(&marker, cli_pid);
		if left.is_empty() {
			break;
		}
		std::thread::sleep(Duration::from_millis(40));
	}
	evs.push(at(Ev::new("survivors"), ms()).n(1).x(left.len() as i64));
	for pid in left {
		unsafe {
			libc::kill(pid, libc::SIGKILL);
		}
	}
	evs.push(at(Ev::new("end"), ms()));
	evs
}

fn main() {
	let args: Vec<String> = std::env::args().collect();
	let (sp, out_path) = (&args[1], &args[2]);
	let threads = args.iter().position(|a| a == "--threads").and_then(|i| args.get(i + 1)).and_then(|s| s.parse().ok()).unwrap_or(4usize);
	let scripts: Vec<Script> = std::io::BufReader::new(std::fs::File::open(sp).expect("scripts"))
		.lines()
		.map_while(Result::ok)
		.filter(|l| !l.trim().is_empty())
		.map(|l| serde_json::from_str(&l).expect("script json"))
		.collect();
	let scripts = Arc::new(scripts);
	let next = Arc::new(AtomicUsize::new(0));
	let results: Arc<Mutex<BTreeMap<usize, Vec<Ev>>>> = Arc::new(Mutex::new(BTreeMap::new()));
	let mut handles = Vec::new();
	for _ in 0..threads {
		let (scripts, next, results) = (scripts.clone(), next.clone(), results.clone());
		handles.push(std::thread::spawn(move || loop {
			let i = next.fetch_add(1, Ordering::SeqCst);
			if i >= scripts.len() {
				break;
			}
			let events = run_script(&scripts[i]);
			results.lock().unwrap().insert(i, events);
		}));
	}
	for h in handles {
		h.join().unwrap();
	}
	let mut out = BufWriter::new(std::fs::File::create(out_path).expect("out file"));
	for events in results.lock().unwrap().values() {
		write_events(&mut out, events).unwrap();
	}
	out.flush().unwrap();
}
