//! Shared pieces of the conformance harness: the trace recorder and the simulated child.
//!
//! Everything here observes the real watchexec crates through their public API plus the
//! `cfg(watchexec_verif)` trace points; nothing here decides a verdict. Verdicts come from TLC.

pub mod pool;
pub mod simchild;
pub mod trace;
