//! Trace recorder: uniform records, one lock, one sequence number.

use std::{
	collections::HashMap,
	io::Write,
	sync::{Arc, Mutex},
};

use serde::Serialize;

/// One observation. The shape is uniform so that the TLA+ trace specs can compare records
/// field by field: unused integer fields are 0, unused strings are "".
#[derive(Clone, Debug, Serialize)]
pub struct Ev {
	/// event name
	pub e: String,
	/// time in milliseconds since scenario start (virtual or monotonic)
	pub t: i64,
	/// ticket / operation id (0 = none)
	pub id: i64,
	/// child index (0 = none)
	pub n: i64,
	/// first string argument
	pub a: String,
	/// second string argument
	pub b: String,
	/// auxiliary integer
	pub x: i64,
	/// number of waiter tasks (send events)
	pub w: i64,
	/// scripted child behaviours (reset events)
	#[serde(skip_serializing_if = "Option::is_none")]
	pub kids: Option<Vec<serde_json::Value>>,
	/// paths whose watch / unwatch fails (reset events of the fs family)
	#[serde(skip_serializing_if = "Option::is_none")]
	pub fw: Option<Vec<String>>,
	#[serde(skip_serializing_if = "Option::is_none")]
	pub fu: Option<Vec<String>>,
	/// tickets still pending (end events)
	#[serde(skip_serializing_if = "Option::is_none")]
	pub pending: Option<Vec<i64>>,
	/// raw flag pointer, resolved to `id` when the event is recorded; never serialised
	#[serde(skip)]
	pub flag: usize,
}

impl Ev {
	pub fn new(e: &str) -> Self {
		Self {
			e: e.into(),
			t: 0,
			id: 0,
			n: 0,
			a: String::new(),
			b: String::new(),
			x: 0,
			w: 0,
			kids: None,
			fw: None,
			fu: None,
			pending: None,
			flag: 0,
		}
	}
	pub fn w(mut self, w: i64) -> Self {
		self.w = w;
		self
	}
	pub fn id(mut self, id: i64) -> Self {
		self.id = id;
		self
	}
	pub fn n(mut self, n: i64) -> Self {
		self.n = n;
		self
	}
	pub fn a(mut self, a: impl Into<String>) -> Self {
		self.a = a.into();
		self
	}
	pub fn b(mut self, b: impl Into<String>) -> Self {
		self.b = b.into();
		self
	}
	pub fn x(mut self, x: i64) -> Self {
		self.x = x;
		self
	}
	pub fn flag(mut self, flag: usize) -> Self {
		self.flag = flag;
		self
	}
}

pub type Clock = Arc<dyn Fn() -> i64 + Send + Sync>;

struct Inner {
	events: Vec<Ev>,
	flags: HashMap<usize, i64>,
	stopped: bool,
}

/// Recorder for one scenario.
#[derive(Clone)]
pub struct Recorder {
	inner: Arc<Mutex<Inner>>,
	clock: Clock,
}

impl Recorder {
	pub fn new(clock: Clock) -> Self {
		Self {
			inner: Arc::new(Mutex::new(Inner {
				events: Vec::new(),
				flags: HashMap::new(),
				stopped: false,
			})),
			clock,
		}
	}

	pub fn now(&self) -> i64 {
		(self.clock)()
	}

	/// Append one event; its time is read under the same lock that orders it.
	pub fn rec(&self, mut ev: Ev) {
		let mut inner = self.inner.lock().unwrap();
		if inner.stopped {
			return;
		}
		ev.t = (self.clock)();
		if ev.flag != 0 {
			if let Some(id) = inner.flags.get(&ev.flag) {
				ev.id = *id;
			}
		}
		inner.events.push(ev);
	}

	/// Declare that the raw flag pointer `flag` belongs to ticket `id`.
	pub fn map_flag(&self, flag: usize, id: i64) {
		self.inner.lock().unwrap().flags.insert(flag, id);
	}

	/// Stop recording (events after the horizon are not part of the scenario).
	pub fn stop(&self) {
		self.inner.lock().unwrap().stopped = true;
	}

	/// Take the events. Flag pointers were resolved to ticket ids when each event was recorded
	/// (the driver keeps every ticket alive until the scenario ends, so a mapped pointer is never
	/// stale; pointers of flags the driver never saw resolve to 0).
	pub fn take(&self) -> Vec<Ev> {
		let mut inner = self.inner.lock().unwrap();
		inner.flags.clear();
		std::mem::take(&mut inner.events)
	}

	/// Take the events, resolving flag pointers that were not known yet when their event was recorded
	/// (multi-threaded drivers: the task may dequeue a control before the sender has got its ticket
	/// back; every ticket is kept alive, so pointers are unique).
	pub fn take_resolving(&self) -> Vec<Ev> {
		let mut inner = self.inner.lock().unwrap();
		let flags = std::mem::take(&mut inner.flags);
		let mut events = std::mem::take(&mut inner.events);
		for ev in &mut events {
			if ev.flag != 0 && ev.id == 0 {
				if let Some(id) = flags.get(&ev.flag) {
					ev.id = *id;
				}
			}
		}
		events
	}

	/// The sink to install for the `cfg(watchexec_verif)` trace points.
	pub fn sink(&self) -> watchexec_supervisor::verif::Sink {
		let rec = self.clone();
		Arc::new(move |name, a, b| match name {
			"deq" => rec.rec(Ev::new("deq").a(ctl_name(a)).flag(b)),
			"raise" => rec.rec(Ev::new("raise").flag(a)),
			"waited" => rec.rec(Ev::new("waited").x(a as i64)),
			"timer_fired" => rec.rec(Ev::new("timer_fired").x(a as i64).flag(b)),
			"loop_exit" => rec.rec(Ev::new("loop_exit")),
			"recv" => rec.rec(Ev::new("recv").id(b as i64).x(a as i64)),
			// the steps inside Flag::poll / Flag::raise are the alphabet of Flag.tla (flag_driver) only
			other if other.starts_with("flag_") => {}
			other => rec.rec(Ev::new(other).x(a as i64).n(b as i64)),
		})
	}
}

pub fn ctl_name(kind: usize) -> &'static str {
	match kind {
		1 => "Start",
		2 => "Stop",
		3 => "GracefulStop",
		4 => "TryRestart",
		5 => "TryGracefulRestart",
		6 => "ContinueTryGracefulRestart",
		7 => "Signal",
		8 => "Delete",
		9 => "NextEnding",
		10 => "SyncFunc",
		11 => "AsyncFunc",
		12 => "SetSyncSpawnHook",
		13 => "SetAsyncSpawnHook",
		14 => "UnsetSpawnHook",
		15 => "SetSyncErrorHandler",
		16 => "SetAsyncErrorHandler",
		17 => "UnsetErrorHandler",
		_ => "Unknown",
	}
}

/// Write events as NDJSON.
pub fn write_events(out: &mut impl Write, events: &[Ev]) -> std::io::Result<()> {
	for ev in events {
		serde_json::to_writer(&mut *out, ev)?;
		out.write_all(b"\n")?;
	}
	Ok(())
}
