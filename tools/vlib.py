"""Shared machinery of the /verif checks: building the harness, running TLC, validating
traces, known findings, evidence.  Python 3 standard library only."""
import json, os, re, shutil, subprocess, sys, time, hashlib

ROOT = os.path.dirname(os.path.dirname(os.path.abspath(__file__)))
# scratch evaluations (seeded changes, mutants) run side by side with their own work directory
WORK = os.environ.get("VERIF_WORK_DIR") or os.path.join(ROOT, ".work")
# VERIF_HARNESS_DIR: a scratch copy of harness/ whose path dependencies point at a scratch worktree of the
# repository (used only to evaluate seeded changes without touching /repo; registered checks never set it)
HARNESS = os.environ.get("VERIF_HARNESS_DIR") or os.path.join(ROOT, "harness")
BIN = os.path.join(HARNESS, "target", "debug")
SPEC = os.path.join(ROOT, "spec")
TLA_CP = "/opt/veriftools/tla/tla2tools.jar:/opt/veriftools/tla/CommunityModules-deps.jar"


class ToolError(Exception):
    """Something in the machinery (not in the code under test) failed: exit 2."""


def log(*a):
    print(*a, flush=True)


def seed():
    try:
        return int(os.environ.get("VERIF_SEED", "1"))
    except ValueError:
        return 1


def workdir(name, clean=True):
    d = os.path.join(WORK, name)
    if clean and os.path.isdir(d):
        shutil.rmtree(d, ignore_errors=True)
    os.makedirs(d, exist_ok=True)
    return d


# --------------------------------------------------------------------------- build

def build_harness():
    """(Re)build the harness against /repo's current working tree, hooks enabled."""
    lock = os.path.join(HARNESS, "Cargo.lock")
    if not os.path.exists(lock):
        shutil.copy("/repo/Cargo.lock", lock)
    env = dict(os.environ, CARGO_NET_OFFLINE="true")
    t0 = time.time()
    p = subprocess.run(["cargo", "build", "--offline", "--bins"], cwd=HARNESS, env=env,
                       stdout=subprocess.PIPE, stderr=subprocess.STDOUT, text=True)
    if p.returncode != 0:
        sys.stderr.write(p.stdout[-6000:])
        raise ToolError("harness build failed")
    return time.time() - t0


# --------------------------------------------------------------------------- TLC

def _stage(dirs, dest):
    for d in dirs:
        for f in os.listdir(d):
            if f.endswith(".tla") or f.endswith(".cfg"):
                shutil.copy(os.path.join(d, f), os.path.join(dest, f))


def tlc(module, cfg, dest, workers=8, timeout=600, env=None, extra=None, java_opts=None,
        spec_dirs=None):
    """Run TLC on `module` with `cfg` inside `dest` (spec files are staged there).
    Returns dict(out, generated, distinct, ok, violated, error, wall)."""
    os.makedirs(dest, exist_ok=True)
    _stage(spec_dirs or [os.path.join(SPEC, d) for d in ("core", "mc", "trace", "pure")], dest)
    meta = os.path.join(dest, "meta")
    cmd = ["timeout", str(timeout), "java", "-XX:+UseParallelGC"]
    cmd += java_opts or ["-Xmx6g"]
    cmd += ["-cp", TLA_CP, "tlc2.TLC", "-workers", str(workers), "-metadir", meta, "-cleanup",
            "-noGenerateSpecTE", "-config", cfg]
    cmd += extra or []
    cmd += [module]
    e = dict(os.environ)
    e.pop("JAVA_TOOL_OPTIONS", None)
    if env:
        e.update(env)
    t0 = time.time()
    p = subprocess.run(cmd, cwd=dest, env=e, stdout=subprocess.PIPE, stderr=subprocess.STDOUT,
                       text=True)
    out = p.stdout
    wall = time.time() - t0
    shutil.rmtree(meta, ignore_errors=True)
    r = dict(out=out, wall=wall, rc=p.returncode, generated=0, distinct=0, ok=False,
             violated=None, error=None, cmd=" ".join(cmd))
    m = re.findall(r"(\d+) states generated, (\d+) distinct states found", out)
    if m:
        r["generated"], r["distinct"] = int(m[-1][0]), int(m[-1][1])
    mv = re.search(r"Error: Invariant (\S+) is violated", out)
    ma = re.search(r"Error: Action property (\S+) is violated", out)
    if mv or ma:
        r["violated"] = (mv or ma).group(1)
    elif "Temporal properties were violated" in out:
        r["violated"] = "temporal"
    elif "Model checking completed. No error has been found." in out or \
            re.search(r"Finished in ", out) and "Error:" not in out:
        r["ok"] = True
    elif p.returncode == 124:
        r["error"] = "timeout"
    else:
        r["error"] = "tlc error"
    return r


def tlc_check(module, cfg, name, workers=8, timeout=900, expect_ok=True, extra=None):
    """Model-check; raise ToolError on tool failure; return result dict."""
    dest = workdir(name)
    r = tlc(module, cfg, dest, workers=workers, timeout=timeout, extra=extra)
    if r["error"]:
        sys.stderr.write(r["out"][-4000:])
        raise ToolError("TLC failed on %s/%s: %s" % (module, cfg, r["error"]))
    return r


def coverage_zero_actions(out):
    """Names of actions TLC reports with zero count under -coverage."""
    zero = []
    for m in re.finditer(r"<(\w+) line[^>]*>: (\d+):(\d+)", out):
        if int(m.group(3)) == 0:
            zero.append(m.group(1))
    return zero


# --------------------------------------------------------------------------- traces

def split_scenarios(lines):
    """Group NDJSON lines into scenarios (each starts with a reset event)."""
    scen, cur = [], None
    for ln in lines:
        if '"e":"reset"' in ln:
            if cur:
                scen.append(cur)
            cur = [ln]
        elif cur is not None:
            cur.append(ln)
    if cur:
        scen.append(cur)
    return scen


def uncovered_expressions(out):
    """Spec expressions (module:line) TLC's -coverage reports as never evaluated."""
    return sorted({"%s:%s" % (m.group(2), m.group(1))
                   for m in re.finditer(r"^\s+line (\d+), col \d+ to line \d+, col \d+ of module (\w+): 0\s*$", out, re.M)})


def _validate_chunk(module, cfg, lines, dest, timeout, cover=False):
    """Run the trace spec over `lines`; return None if accepted else (lineno, text)."""
    os.makedirs(dest, exist_ok=True)
    tf = os.path.join(dest, "trace.ndjson")
    with open(tf, "w") as f:
        f.write("".join(lines))
    r = tlc(module, cfg, dest, workers=1, timeout=timeout, env={"TRACE": tf},
            java_opts=["-Xss1g", "-Xmx3g", "-Dtlc2.tool.queue.IStateQueue=StateDeque"],
            extra=["-coverage", "1"] if cover else None)
    out = r["out"]
    if cover:
        r["uncovered"] = uncovered_expressions(out)
    if r["ok"]:
        return None, r
    m = re.search(r'"TRACE-REJECTED at line",\s*(\d+)', out)
    mv = re.search(r"Error: Invariant (\S+) is violated", out)
    if mv:
        # a monitor invariant failed in the state reached by consuming line l - 1
        ls = re.findall(r"/\\ l = (\d+)", out)
        # the complaints of the property whose invariant failed (MonC04 -> b04), else any
        mine = re.match(r"MonC(\d\d)$", mv.group(1))
        why = []
        if mine:
            why = [re.sub(r"\s+", " ", w) for w in re.findall(r'b%s \|->\s*\{\s*("[^}]*?")\s*\}' % mine.group(1), out, re.S)]
        if not why:
            why = [re.sub(r"\s+", " ", w) for w in re.findall(r'(?:b\d\d|bad) \|->\s*\{\s*("[^}]*?")\s*\}', out, re.S)]
        return ("inv", mv.group(1), int(ls[-1]) - 1 if ls else (int(m.group(1)) if m else 0),
                why[-1] if why else ""), r
    if m:
        return int(m.group(1)), r
    sys.stderr.write(out[-5000:])
    raise ToolError("trace validation run failed (%s)" % (r["error"] or "unknown"))


# trace specifications on which TLC's -coverage is cheap (it is not on the monitors, whose one big
# record makes the bookkeeping dominate: JobMon went from seconds to a timeout)
COVERABLE = {"JobTrace.tla", "WorkerTrace.tla", "FsTrace.tla", "ProcTrace.tla"}


def validate_traces(module, cfg, trace_file, name, shards=8, timeout=600, max_reject=25, leftover=None):
    """Validate every scenario of trace_file. Returns (n_accepted, rejections, tlc_stats).
    A rejection is dict(script, line, event, kind, invariant, lines)."""
    from concurrent.futures import ThreadPoolExecutor
    with open(trace_file) as f:
        scen = split_scenarios(f.readlines())
    base = workdir(name)
    chunks = [scen[i::shards] for i in range(shards)]
    chunks = [c for c in chunks if c]
    stats = dict(generated=0, distinct=0, runs=0, uncovered=None)

    def work(args):
        idx, chunk = args
        acc, rej = 0, []
        run = 0
        while chunk and len(rej) < max_reject:
            lines = [ln for sc in chunk for ln in sc]
            res, r = _validate_chunk(module, cfg, lines, os.path.join(base, "s%d_%d" % (idx, run)),
                                     timeout, cover=(module in COVERABLE and idx == 0 and run == 0))
            # spec expressions the first shard never evaluated: the part of the specification
            # these traces did not exercise (an over-approximation: other shards may reach more)
            if res is None and "uncovered" in r:
                u = set(r["uncovered"])
                stats["uncovered"] = u if stats["uncovered"] is None else (stats["uncovered"] & u)
            run += 1
            stats["generated"] += r["generated"]
            stats["distinct"] += r["distinct"]
            stats["runs"] += 1
            if res is None:
                acc += len(chunk)
                break
            lineno = res if isinstance(res, int) else res[2]
            # locate scenario containing lineno (1-based)
            n, k = 0, 0
            for k, sc in enumerate(chunk):
                if n + len(sc) >= lineno:
                    break
                n += len(sc)
            sc = chunk[k]
            first = json.loads(sc[0])
            off = max(0, min(len(sc) - 1, lineno - n - 1))
            rej.append(dict(script=first.get("a"), line=off + 1,
                            event=json.loads(sc[off]),
                            kind="rejected" if isinstance(res, int) else "invariant",
                            invariant=None if isinstance(res, int) else res[1],
                            why=None if isinstance(res, int) else res[3],
                            lines=sc))
            acc += k
            chunk = chunk[k + 1:]
        if chunk and len(rej) >= max_reject and leftover is not None:
            leftover.extend(chunk)      # not looked at: too many rejections in this shard
        return acc, rej

    accepted, rejections = 0, []
    with ThreadPoolExecutor(max_workers=len(chunks) or 1) as ex:
        for acc, rej in ex.map(work, list(enumerate(chunks))):
            accepted += acc
            rejections += rej
    return accepted, rejections, stats, len(scen)


def second_opinion(module, cfg, rejections, name, timeout=600, leftover=None):
    """A scenario that the step-by-step trace specification rejects is put to the specification of what can
    be observed from outside (trace points not required, silent steps): -> (still rejected, explained).
    A run whose internal steps are organised differently but which shows the same is not a violation."""
    from concurrent.futures import ThreadPoolExecutor
    base = workdir(name)

    def work(args):
        i, r = args
        res, _ = _validate_chunk(module, cfg, r["lines"], os.path.join(base, "r%d" % i), timeout)
        return res
    with ThreadPoolExecutor(max_workers=8) as ex:
        verdicts = list(ex.map(work, list(enumerate(rejections))))
    still = [r for r, v in zip(rejections, verdicts) if v is not None]
    explained = [r for r, v in zip(rejections, verdicts) if v is None]
    if leftover:
        # scenarios the step-by-step run never got to (its shard had reached the cap of rejections)
        lf = os.path.join(base, "leftover.ndjson")
        with open(lf, "w") as f:
            for sc in leftover:
                f.write("".join(sc))
        acc, rej, _, _ = validate_traces(module, cfg, lf, name + "_left", shards=12, timeout=timeout)
        still += rej
        explained += [None] * acc
    return still, explained


# --------------------------------------------------------------------------- findings

def known_findings():
    p = os.path.join(ROOT, "known_findings.json")
    if not os.path.exists(p):
        return []
    with open(p) as f:
        return json.load(f)


def open_findings(prop):
    return [k for k in known_findings() if k.get("property") == prop and k.get("status") == "open"]


# --------------------------------------------------------------------------- evidence

def write_evidence(prop, tier, coverage, wall, violations, assumptions, level="model_checking"):
    ev = dict(property_id=prop, tier=tier, seed=seed(), level=level, coverage=coverage,
              assumptions=assumptions, wall_s=round(wall, 2), violations=violations)
    # runs against a deliberately broken tree (seed / mutant evaluation) do not touch the real evidence
    d = os.path.join(WORK, "evidence") if os.environ.get("VERIF_SCRATCH_REPLAYS") else os.path.join(ROOT, "evidence")
    os.makedirs(d, exist_ok=True)
    p = os.path.join(d, prop + ".json")
    with open(p + ".tmp", "w") as f:
        json.dump(ev, f, indent=1, sort_keys=False)
    os.replace(p + ".tmp", p)
    return p


def save_replay(prop, name, payload):
    # replays of runs against a deliberately broken tree (seed evaluation) stay out of the repo
    d = os.path.join(WORK, "replays") if os.environ.get("VERIF_SCRATCH_REPLAYS") else os.path.join(ROOT, "replays")
    os.makedirs(d, exist_ok=True)
    p = os.path.join(d, "%s_%s.json" % (prop, name))
    with open(p, "w") as f:
        json.dump(payload, f, indent=1)
    return p


def digest(obj):
    return hashlib.sha1(json.dumps(obj, sort_keys=True).encode()).hexdigest()[:10]
