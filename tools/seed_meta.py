#!/usr/bin/env python3
"""usage: seed_meta.py <seed-id> <confirm-log>   — writes seeded/<id>/meta.json from the agent's meta, the
confirmation log (copied to confirm.txt) and checks.txt (written by eval_seed*.sh)."""
import json, os, shutil, sys
sid, confirm = sys.argv[1:3]
d = os.path.join("/verif/seeded", sid)
agent = json.load(open(os.path.join(d, "meta_agent.json")))
shutil.copy(confirm, os.path.join(d, "confirm.txt"))
checks = [l.rstrip("\n") for l in open(os.path.join(d, "checks.txt")) if l.strip()]
meta = dict(id=sid, property=agent.get("property"), summary=agent.get("summary"), needs=agent.get("needs"),
            files=agent.get("files"),
            origin="written by an independent sub-agent given only the property text and a scratch worktree",
            confirmed=dict(how="in the scratch worktree: existing tests pass with the patch, the demonstration fails with it and passes without", log="confirm.txt"),
            evaluated="tools/eval_seed_scratch.sh: the quick checks ran against a scratch copy of the harness pointed at the patched scratch worktree (/repo untouched)",
            checks_run=checks)
json.dump(meta, open(os.path.join(d, "meta.json"), "w"), indent=1)
print(sid, [c for c in checks if " rc=" in c])
