"""C13: watcher registration converges to the configured path set."""
import itertools, json, os, random, subprocess, sys, time
import vlib
from jobcheck import sample_of

NAMES = ["a", "a!", "b", "c"]


def sets(maxlen=3):
    out = []
    for n in range(0, maxlen + 1):
        for c in itertools.combinations(NAMES, n):
            if "a" in c and "a!" in c:
                continue
            out.append(list(c))
    return out


def change(rng=None, kind=None):
    pass


def all_changes():
    ch = [dict(set_paths=s) for s in sets(2)]
    ch += [dict(set_kind="poll"), dict(set_kind="poll2"), dict(set_kind="native"), dict(other=True)]
    return ch


def scripts_for(tier, rng):
    out, k = [], 0
    S = sets(2)
    C = all_changes()
    # every initial set x every single change, made while idle and inside each of the first calls
    for init in S:
        for c in C:
            for at in ("idle", 1, 2, 3):
                step = dict(at="idle" if at == "idle" else "call", k=0 if at == "idle" else at, **c)
                out.append(dict(id="v%05d" % k, origin="single-change", init_paths=init, steps=[step]))
                k += 1
    # failures on one path
    for init in S:
        for tgt in S:
            for p in ("b", "c"):      # not a / a!: two modes of one path plus a failed call is outside the model
                out.append(dict(id="v%05d" % k, origin="watch-failure", init_paths=init, fail_watch=[p],
                                steps=[dict(at="idle", k=0, set_paths=tgt), dict(at="idle", k=0, other=True)]))
                k += 1
                out.append(dict(id="v%05d" % k, origin="unwatch-failure", init_paths=init, fail_unwatch=[p],
                                steps=[dict(at="idle", k=0, set_paths=tgt), dict(at="idle", k=0, set_paths=init)]))
                k += 1
    # several paths failing in one go against an error channel that holds one error: each failure is
    # still reported, once (the worker waits for room)
    for init in S:
        for tgt in (["b", "c"], ["a", "b", "c"][:3]):
            for cap in (1, 2):
                out.append(dict(id="v%05d" % k, origin="watch-failures-small-channel", init_paths=init, err_cap=cap,
                                fail_watch=["b", "c"], fail_unwatch=["b", "c"],
                                steps=[dict(at="idle", k=0, set_paths=tgt), dict(at="idle", k=0, set_paths=[]),
                                       dict(at="idle", k=0, set_paths=tgt)]))
                k += 1
    n = 600 if tier == "quick" else 8000
    for _ in range(n):
        steps = []
        for _ in range(rng.randrange(2, 6)):
            c = dict(rng.choice(C))
            if rng.random() < 0.5:
                steps.append(dict(at="idle", k=0, **c))
            else:
                steps.append(dict(at="call", k=rng.randrange(1, 9), **c))
        s = dict(id="v%05d" % k, origin="random", init_paths=rng.choice(sets(3)), steps=steps)
        if rng.random() < 0.3:
            s["fail_watch"] = [rng.choice(["b", "c"])]
        if rng.random() < 0.2:
            s["fail_unwatch"] = [rng.choice(["b", "c"])]
        if rng.random() < 0.15:
            s["fail_watch"], s["err_cap"] = ["b", "c"], 1
        out.append(s)
        k += 1
    if tier == "quick":
        head = [s for s in out if s["origin"] != "random"]
        rest = [s for s in out if s["origin"] == "random"]
        out = rng.sample(head, min(len(head), 1500)) + rest
    return out


def failure_scripts():
    """C15 (registration clause): failing watch / unwatch calls, one or several in one go, against an error
    channel that holds one or two errors: every failure reaches the error consumer exactly once"""
    out, k = [], 0
    for init in sets(2):
        for tgt in (["b"], ["b", "c"], ["a", "b", "c"]):
            for cap in (1, 2, 64):
                out.append(dict(id="w%05d" % k, origin="registration-failures", init_paths=init, err_cap=cap,
                                fail_watch=["b", "c"], fail_unwatch=["b", "c"],
                                steps=[dict(at="idle", k=0, set_paths=tgt), dict(at="idle", k=0, set_paths=[]),
                                       dict(at="idle", k=0, set_paths=tgt), dict(at="idle", k=0, other=True)]))
                k += 1
    return out


def callback_scripts():
    """C15 (callback clause): bursts of watcher events against a small event queue, and callback errors."""
    out, k = [], 0
    # the watcher's own callback: bursts of events against a small event queue, and callback errors
    for init in (["a"], ["a", "b"], []):
        for cap in (1, 2, 1024):
            for emit in (0, 1, 2, 3, 5):
                for err in (0, 1, 2):
                    if emit == 0 and err == 0:
                        continue
                    out.append(dict(id="u%05d" % k, origin="callback-burst", ev_cap=cap, init_paths=init,
                                    steps=[dict(at="idle", k=0, emit=emit, emit_err=err),
                                           dict(at="idle", k=0, set_paths=["b"]),
                                           dict(at="idle", k=0, emit=emit, emit_err=0)]))
                    k += 1
    return out


def run_scripts(scripts, name):
    """Run fs scripts against the real worker and validate them with FsTrace. -> (tracefile, acc, rej, stats, total)"""
    d = vlib.workdir("drv_" + name)
    sp, tp = os.path.join(d, "scripts.ndjson"), os.path.join(d, "traces.ndjson")
    with open(sp, "w") as f:
        for s in scripts:
            f.write(json.dumps(s) + "\n")
    p = subprocess.run([os.path.join(vlib.BIN, "fs_driver"), sp, tp, "--threads", "12"],
                       stdout=subprocess.PIPE, stderr=subprocess.STDOUT, text=True, timeout=3600)
    if p.returncode != 0:
        sys.stderr.write(p.stdout[-3000:])
        raise vlib.ToolError("fs_driver failed")
    left = []
    acc, rej, stats, total = vlib.validate_traces("FsTrace.tla", "FsTrace.cfg", tp, "val_" + name, shards=12, leftover=left)
    rej, explained = vlib.second_opinion("FsTraceObs.tla", "FsTraceObs.cfg", rej, "obs_" + name, leftover=left)
    acc += len(explained)
    return tp, acc, rej, stats, total


def nontrivial(s):
    return any(st["at"] == "call" for st in s["steps"]) or s.get("fail_watch") or s.get("fail_unwatch") \
        or any(st.get("set_kind") or st.get("emit") or st.get("emit_err") for st in s["steps"])


def run(prop, tier, replay=None):
    t0 = time.time()
    rng = random.Random(vlib.seed() * 613 + 13)
    vlib.build_harness()
    mc = vlib.tlc_check("MC_Fs.tla", "MC_Fs_%s.cfg" % ("fixed" if tier == "quick" else "thorough"), "mc_C13",
                        workers=12, timeout=3000)
    violations = []
    if mc["violated"]:
        path = vlib.save_replay(prop, "model_" + mc["violated"], dict(kind="model", invariant=mc["violated"], tlc_tail=mc["out"][-6000:]))
        violations.append(("model invariant %s violated" % mc["violated"], path))
    replay_worker = None
    if replay:
        with open(replay) as f:
            scripts = [json.load(f)["script"]]
        if scripts[0].get("events") is not None:       # a script of the handler-reconfiguration family
            replay_worker, scripts = scripts, []
    else:
        scripts = scripts_for(tier, rng)
    by_id = {s["id"]: s for s in scripts}
    d = vlib.workdir("drv_C13")
    sp, tp = os.path.join(d, "scripts.ndjson"), os.path.join(d, "traces.ndjson")
    with open(sp, "w") as f:
        for s in scripts:
            f.write(json.dumps(s) + "\n")
    p = subprocess.run([os.path.join(vlib.BIN, "fs_driver"), sp, tp, "--threads", "12"],
                       stdout=subprocess.PIPE, stderr=subprocess.STDOUT, text=True, timeout=3600)
    if p.returncode != 0:
        sys.stderr.write(p.stdout[-3000:])
        raise vlib.ToolError("fs_driver failed")
    left = []
    acc, rej, stats, total = vlib.validate_traces("FsTrace.tla", "FsTrace.cfg", tp, "val_C13", shards=12, leftover=left)
    # rejected step by step: is it at least a behaviour of FsWorker as far as can be seen from outside?
    rej, explained = vlib.second_opinion("FsTraceObs.tla", "FsTraceObs.cfg", rej, "obs_C13", leftover=left)
    acc += len(explained)
    for r in rej:
        sid = r["script"] or ""
        ev = r["event"]
        what = "trace is not a behaviour of FsWorker"
        if ev["e"] == "end":
            what = "when changes stopped the watcher was not the configured one (kind %s, registered %s)" % (ev["a"], ev.get("kids"))
        elif ev["e"] == "idle":
            what = "the worker went quiet although a configuration change had not been applied"
        path = vlib.save_replay(prop, "%s_%s" % (sid, vlib.digest(ev)), dict(
            kind="trace", property=prop, script=by_id.get(sid), rejected_at_line=r["line"], event=ev, why=what,
            trace=[json.loads(x) for x in r["lines"]]))
        violations.append(("%s: %s at line %d (%s)" % (sid, what, r["line"], ev["e"]), path))
    # the last clause: reconfiguring from within a handler neither deadlocks nor affects the invocation in
    # progress - a real Watchexec whose action / error handlers replace the path set, the watcher kind, the
    # throttle, each other and themselves from inside their own invocation (worker_driver; a run that hangs
    # is given up by the driver's watchdog and ends in a `hang` line); judged by ActionWorker's trace validation
    rextra = {}
    if not replay or replay_worker:
        import workcheck, workgen
        rscripts = replay_worker or workgen.reconfig_scripts(rng, 150 if tier == "quick" else 3000)
        rby = {s["id"]: s for s in rscripts}
        rtp = workcheck.run_driver(rscripts, "drv_C13_reconfig")
        left = []
        racc, rrej, rstats, rtotal = vlib.validate_traces("WorkerTrace.tla", "WorkerTrace_C15.cfg", rtp, "val_C13_reconfig", shards=12, leftover=left)
        rrej, rexpl = vlib.second_opinion("WorkerTraceObs.tla", "WorkerTraceObs_C15.cfg", rrej, "obs_C13_reconfig", leftover=left)
        racc += len(rexpl)
        for r in rrej:
            sid = r["script"] or ""
            hung = any('"e":"hang"' in ln for ln in r["lines"])
            what = ("a handler that reconfigures Watchexec from inside its own invocation never returned: deadlock" if hung
                    else "after a reconfiguration from inside a handler the run is not a behaviour of ActionWorker")
            path = vlib.save_replay(prop, "%s_%s" % (sid, vlib.digest(r["event"])), dict(
                kind="trace", property=prop, script=rby.get(sid), rejected_at_line=r["line"], event=r["event"], why=what,
                trace=[json.loads(x) for x in r["lines"]]))
            violations.append(("%s: %s at line %d (%s)" % (sid, what, r["line"], r["event"]["e"]), path))
        acc += racc
        total += rtotal
        stats["distinct"] += rstats["distinct"]
        stats["generated"] += rstats["generated"]
        rextra = dict(handler_reconfiguration_scripts=rtotal, handler_reconfiguration_accepted=racc)
    with open(tp) as f:
        scen = vlib.split_scenarios(f.readlines())
    distinct = {vlib.digest({k: v for k, v in s.items() if k not in ("id", "origin")}) for s in scripts if nontrivial(s)}
    samples = [dict(script=by_id.get(json.loads(sc[0])["a"]), trace=sample_of(sc))
               for sc in scen[len(scen) // 2: len(scen) // 2 + 2]]
    coverage = dict(
        states=mc["distinct"] + stats["distinct"], transitions=mc["generated"] + stats["generated"],
        model_states=mc["distinct"], model_transitions=mc["generated"], trace_states=stats["distinct"],
        spec_expressions_not_evaluated_on_traces=sorted(stats.get("uncovered") or []),
        traces_validated_against_impl=acc, evaluations=total, distinct_nontrivial=len(distinct),
        rule="scripts with a change made inside a watcher call, a watcher-kind change or an injected watch/unwatch failure; distinct by the whole script",
        exhaustive=False, samples=samples,
        checker_cmd="tlc MC_Fs.tla ; fs_driver ; tlc FsTrace.tla -config FsTrace.cfg (per shard) ; a rejected scenario: tlc FsTraceObs.tla -config FsTraceObs.cfg",
        internal_steps_differ_but_observably_conforming=len(explained),
        script_families=sorted({s.get("origin", "?") for s in scripts}), **rextra)
    assumptions = [
        "the OS watcher is replaced by a recording notify::Watcher through the cfg(watchexec_verif) factory: call order and arguments are judged, not what inotify would report",
        "a configuration change made inside a watcher call stands for a change from another thread at that point of the worker's loop",
        "TLC and the CommunityModules are trusted",
    ]
    vlib.write_evidence(prop, tier, coverage, time.time() - t0, len(violations), assumptions)
    return violations
