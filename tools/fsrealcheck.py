"""C01, real filesystem tier: a real Watchexec with the native (inotify) or poll watcher on a temporary
tree, scripted file operations; the worker-family trace must be a behaviour of ActionWorker (WorkerTrace,
untimed) and the source-level trace must satisfy FsSourceTrace.tla."""
import json, os, subprocess, sys
from concurrent.futures import ThreadPoolExecutor
import vlib

CLASSES = ["pass", "pass", "pass", "rej", "err"]


def gen_script(rng, sid, watcher):
    dirs = ["root"]
    pre_dirs, pre_files = [], []
    if rng.random() < 0.6:
        pre_dirs.append("root/sub")
        dirs.append("root/sub")
        if rng.random() < 0.4:
            pre_dirs.append("root/sub/deep")
            dirs.append("root/sub/deep")
    files = []
    k = [0]

    def fresh(cls=None):
        k[0] += 1
        return "%s_%d.txt" % (cls or rng.choice(CLASSES), k[0])

    for _ in range(rng.randrange(0, 3)):
        f = "%s/%s" % (rng.choice(dirs), fresh())
        pre_files.append(f)
        files.append(f)
    slow = watcher == "poll"
    ops, after_mkdir = [], False
    for _ in range(rng.randrange(3, 9)):
        gap = 220 if slow else rng.choice([0, 0, 10, 30, 80])
        if after_mkdir:
            gap = max(gap, 250)
            after_mkdir = False
        r = rng.random()
        if r < 0.35 or not files:
            f = "%s/%s" % (rng.choice(dirs), fresh())
            ops.append(dict(op="create", path=f, gap_ms=gap))
            files.append(f)
        elif r < 0.55:
            ops.append(dict(op="write", path=rng.choice(files), gap_ms=gap))
        elif r < 0.68:
            f = rng.choice(files)
            files.remove(f)
            ops.append(dict(op="remove", path=f, gap_ms=gap))
        elif r < 0.82:
            f = rng.choice(files)
            files.remove(f)
            t = "%s/%s" % (rng.choice(dirs), fresh())
            files.append(t)
            ops.append(dict(op="rename", path=f, to=t, gap_ms=gap))
        elif r < 0.92:
            k[0] += 1
            d = "%s/d%d" % (rng.choice(dirs), k[0])
            dirs.append(d)
            ops.append(dict(op="mkdir", path=d, gap_ms=gap))
            after_mkdir = True
        else:
            k[0] += 1
            ops.append(dict(op="create", path="outside/pass_%d.txt" % k[0], gap_ms=gap))
    return dict(id=sid, origin="random-" + watcher, watcher=watcher, throttle=rng.choice([0, 30, 80]),
                pre_dirs=pre_dirs, pre_files=pre_files, ops=ops)


def gen_source_script(rng, sid):
    """the other sources: signals sent to the program (INT / TERM are urgent and by-pass the filter, USR2 is
    rejected by the naming rule, HUP makes the filter fail) and keyboard end-of-file, among file operations"""
    ops = [dict(op="create", path="root/pass_1.txt", gap_ms=20)]
    sigs = ["USR1", "USR2", "HUP", "INT", "TERM", "QUIT"]
    rng.shuffle(sigs)
    for i, sg in enumerate(sigs[: rng.randrange(2, 6)]):
        ops.append(dict(op="signal", path="signal/" + sg, gap_ms=rng.choice([60, 90, 150])))   # far enough apart not to coalesce
        if rng.random() < 0.4:
            ops.append(dict(op="write", path="root/pass_1.txt", gap_ms=rng.choice([0, 20])))
    if rng.random() < 0.7:
        ops.insert(rng.randrange(1, len(ops) + 1), dict(op="keyboard", path="keyboard/eof", gap_ms=50))
    return dict(id=sid, origin="sources", watcher="native", throttle=rng.choice([0, 30]), pre_dirs=[], pre_files=[], ops=ops)


def scripts_for(tier, rng):
    n_native, n_poll, n_src = (18, 6, 8) if tier == "quick" else (160, 40, 60)
    return [gen_script(rng, "n%04d" % i, "native") for i in range(n_native)] + \
           [gen_script(rng, "q%04d" % i, "poll") for i in range(n_poll)] + \
           [gen_source_script(rng, "s%04d" % i) for i in range(n_src)]


def drive(scripts, name, procs=4):
    d = vlib.workdir(name)
    wp, fp = os.path.join(d, "worker.ndjson"), os.path.join(d, "source.ndjson")

    def one(i):
        part = scripts[i::procs]
        if not part:
            return
        sp = os.path.join(d, "scripts%d.ndjson" % i)
        with open(sp, "w") as f:
            for s in part:
                f.write(json.dumps(s) + "\n")
        p = subprocess.run([os.path.join(vlib.BIN, "fsreal_driver"), sp, wp + str(i), fp + str(i)], stdin=subprocess.DEVNULL,
                           stdout=subprocess.PIPE, stderr=subprocess.STDOUT, text=True, timeout=3600)
        if p.returncode != 0:
            sys.stderr.write(p.stdout[-3000:])
            raise vlib.ToolError("fsreal_driver failed")

    with ThreadPoolExecutor(max_workers=procs) as ex:
        list(ex.map(one, range(procs)))
    for base in (wp, fp):
        with open(base, "w") as out:
            for i in range(procs):
                if os.path.exists(base + str(i)):
                    with open(base + str(i)) as f:
                        out.write(f.read())
    return wp, fp


def run(prop, tier, rng, only=None):
    """-> (violations, extra, trace-stats)"""
    scripts = [only] if only else scripts_for(tier, rng)
    by_id = {s["id"]: s for s in scripts}
    todo, attempts = list(scripts), 0
    final = {}
    accepted = set()
    tstats = dict(distinct=0, generated=0)
    n_events = 0
    while todo and attempts < 3:
        attempts += 1
        wp, fp = drive(todo, "drv_fsreal%d" % attempts)
        rejected = {}
        for module, cfg, tp, what in (("WorkerTrace.tla", "WorkerTrace_C01.cfg", wp, "worker"),
                                     ("FsSourceTrace.tla", "FsSourceTrace.cfg", fp, "source")):
            acc, rej, stats, total = vlib.validate_traces(module, cfg, tp, "val_fsreal_%s%d" % (what, attempts), shards=4)
            tstats["distinct"] += stats["distinct"]
            tstats["generated"] += stats["generated"]
            for r in rej:
                rejected.setdefault(r["script"], (what, r))
        with open(fp) as f:
            n_events += sum(1 for ln in f if '"e":"fsev"' in ln)
        for s in todo:
            if s["id"] in rejected:
                final[s["id"]] = rejected[s["id"]]
            else:
                accepted.add(s["id"])
                final.pop(s["id"], None)
        # real time, real inotify: a script is only held against the code when it fails every time
        todo = [by_id[sid] for sid in rejected]
    violations = []
    for sid, (what, r) in final.items():
        ev = r["event"]
        if what == "worker":
            why = "on real filesystem events the worker's steps are not those of ActionWorker"
        else:
            why = {"fsev": "an event names a path outside the watched tree or untouched, is misnumbered, or got another verdict than the naming rule gives",
                   "batch": "a batch is empty, or holds an event that was rejected, unknown or already delivered",
                   "lost": "an event made by the source was lost on its way to the queue",
                   "source_error": "the filesystem source reported an error",
                   "end": "an accepted event never reached the handler, or a file operation inside the watched tree was not reported at all"}.get(ev["e"], "the run does not satisfy FsSourceTrace")
        path = vlib.save_replay(prop, "fsreal_%s_%s" % (sid, vlib.digest(ev)), dict(
            kind="fsreal-trace", property=prop, script=by_id[sid], which=what, rejected_at_line=r["line"], event=ev,
            why=why, attempts=3, trace=[json.loads(x) for x in r["lines"]]))
        violations.append(("%s (real filesystem, %s watcher): %s (line %d, %s)" % (sid, by_id[sid]["watcher"], why, r["line"], ev["e"]), path))
    extra = dict(real_fs_scripts=len(scripts), real_fs_accepted=len(accepted), real_fs_attempts=attempts,
                 real_fs_events=n_events, real_fs_watchers=sorted({s["watcher"] for s in scripts}))
    return violations, extra, tstats
