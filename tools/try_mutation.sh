#!/bin/sh
# usage: try_mutation.sh <patch-file> <prop> [<prop>...]   (applies to /repo, runs quick checks, reverts)
patch="$1"; shift
cd /repo && git apply "$patch" || { echo "patch does not apply"; exit 2; }
for p in "$@"; do
  (cd /verif && VERIF_SCRATCH_REPLAYS=1 ./check "$p" --tier quick > /verif/.work/mut_$p.out 2>&1; echo "$p rc=$? violations=$(grep -c VIOLATION /verif/.work/mut_$p.out)"; grep -A1 VIOLATION /verif/.work/mut_$p.out | sed -n 2p | cut -c1-220)
done
cd /repo && git checkout -- . && git status --short | head -3
