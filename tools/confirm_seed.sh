#!/bin/sh
# usage: confirm_seed.sh <worktree> "<cargo -p args>" <demo-test-target> 
# Confirms in the scratch worktree: with the patch the demo fails and the existing tests pass;
# without it the demo passes. Leaves the worktree with the patch applied.
wt="$1"; pkgs="$2"; demo="$3"
cd "$wt" || exit 2
echo "## with patch: existing tests"; cargo test $pkgs --offline -- --skip seeded 2>&1 | grep -E "^test result|FAILED|error" | sort | uniq -c
echo "## with patch: demo"; cargo test $pkgs --offline --test "$demo" 2>&1 | grep -E "^test result|panicked|FAILED" | head -5
git apply -R SEEDED/patch.diff || { echo "cannot revert"; exit 2; }
echo "## without patch: demo"; cargo test $pkgs --offline --test "$demo" 2>&1 | grep -E "^test result|panicked|FAILED" | head -5
git apply SEEDED/patch.diff
