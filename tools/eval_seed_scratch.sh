#!/bin/sh
# usage: eval_seed_scratch.sh <seed-id> <worktree-with-SEEDED> "<props>"
# Evaluates a seeded change WITHOUT touching /repo: the patch stays applied in its scratch worktree, a scratch
# copy of the harness is pointed at that worktree, and the quick checks run against it.
id="$1"; wt="$2"; props="$3"
out=/verif/seeded/$id; mkdir -p "$out"
cp "$wt/SEEDED/patch.diff" "$out/patch.diff"
for f in demo.rs demo.sh; do [ -f "$wt/SEEDED/$f" ] && cp "$wt/SEEDED/$f" "$out/$f"; done
[ -f "$wt/SEEDED/meta.json" ] && cp "$wt/SEEDED/meta.json" "$out/meta_agent.json"
h=/tmp/harness_$id
rm -rf "$h"; mkdir -p "$h"
(cd /verif/harness && tar cf - --exclude target .) | (cd "$h" && tar xf -)
sed -i "s#/repo/crates#$wt/crates#g" "$h/Cargo.toml"
: > "$out/checks.txt"
for p in $props; do
  (cd /verif && VERIF_HARNESS_DIR="$h" VERIF_WORK_DIR="/verif/.work/w_seed_$id" VERIF_SCRATCH_REPLAYS=1 ./check "$p" --tier quick > "/verif/.work/seed_${id}_$p.out" 2>&1; rc=$?; echo "$p rc=$rc violations=$(grep -c '^VIOLATION' /verif/.work/seed_${id}_$p.out)" >> "$out/checks.txt"; grep -A1 '^VIOLATION' "/verif/.work/seed_${id}_$p.out" | sed -n 2p | cut -c1-260 >> "$out/checks.txt")
done
rm -rf "$h" "/verif/.work/w_seed_$id"
cat "$out/checks.txt"
