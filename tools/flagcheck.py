"""C07, the flag behind every ticket: Flag.tla model-checked (safety with spurious polls and two
raisers, liveness under fairness) and multi-threaded runs of the real Flag validated against it."""
import json, os, subprocess, sys
import vlib


def scripts_for(tier, rng):
    n = 18000 if tier == "quick" else 120000
    return [dict(id="f%05d" % i, tasks=rng.choice([1, 2, 2, 3, 4]), raisers=rng.choice([1, 1, 2]),
                 seed=rng.randrange(1 << 40), spurious=rng.random() < 0.3, early=rng.random() < 0.1)
            for i in range(n)]


def run(prop, tier, rng, only=None):
    """-> (violations, extra, mc-stats, trace-stats)"""
    violations = []
    mcs = dict(distinct=0, generated=0)
    for cfg in (("Flag.cfg", "Flag_live.cfg") if tier == "quick" else ("Flag_big.cfg", "Flag_live.cfg")):
        mc = vlib.tlc_check("Flag.tla", cfg, "mc_flag_" + cfg[:-4], workers=6, timeout=1200)
        mcs["distinct"] += mc["distinct"]
        mcs["generated"] += mc["generated"]
        if mc["violated"]:
            path = vlib.save_replay(prop, "flagmodel_" + mc["violated"], dict(kind="model", invariant=mc["violated"], cfg=cfg, tlc_tail=mc["out"][-6000:]))
            violations.append(("Flag.tla (%s): %s violated" % (cfg, mc["violated"]), path))
    proof = None
    if tier == "thorough":
        # NoLostWakeup for any number of tasks and raisers: the TLAPS proof of spec/proof/FlagProof.tla
        d = vlib.workdir("proof_flag")
        import shutil
        shutil.copy(os.path.join(vlib.SPEC, "core", "Flag.tla"), d)
        shutil.copy(os.path.join(vlib.SPEC, "proof", "FlagProof.tla"), d)
        q = subprocess.run(["timeout", "1200", "tlapm", "--threads", "8", "FlagProof.tla"], cwd=d,
                           stdout=subprocess.PIPE, stderr=subprocess.STDOUT, text=True)
        import re
        m = re.search(r"All (\d+) obligations proved", q.stdout)
        if m:
            proof = int(m.group(1))
        elif "obligations failed" in q.stdout:
            path = vlib.save_replay(prop, "flagproof", dict(kind="proof", tlapm_tail=q.stdout[-4000:]))
            violations.append(("the TLAPS proof of NoLostWakeup (spec/proof/FlagProof.tla) no longer goes through", path))
        else:
            sys.stderr.write(q.stdout[-2000:])
            raise vlib.ToolError("tlapm failed")
    scripts = [only] * 200 if only else scripts_for(tier, rng)      # a replay repeats the scenario: threads decide
    by_id = {s["id"]: s for s in scripts}
    d = vlib.workdir("drv_flag")
    tp = os.path.join(d, "traces.ndjson")
    # several driver processes side by side: more scenarios in the same time, and busier cores, which is
    # what makes a thread lose the processor in the middle of raise() or poll()
    procs = 1 if only else 6

    def one(i):
        part = scripts[i::procs]
        sp = os.path.join(d, "scripts%d.ndjson" % i)
        with open(sp, "w") as f:
            for s in part:
                f.write(json.dumps(s) + "\n")
        p = subprocess.run([os.path.join(vlib.BIN, "flag_driver"), sp, tp + str(i)], stdout=subprocess.PIPE,
                           stderr=subprocess.STDOUT, text=True, timeout=3600)
        if p.returncode != 0:
            sys.stderr.write(p.stdout[-3000:])
            raise vlib.ToolError("flag_driver failed")

    from concurrent.futures import ThreadPoolExecutor
    with ThreadPoolExecutor(max_workers=procs) as ex:
        list(ex.map(one, range(procs)))
    with open(tp, "w") as out:
        for i in range(procs):
            with open(tp + str(i)) as f:
                out.write(f.read())
    acc, rej, stats, total = vlib.validate_traces("FlagTrace.tla", "FlagTrace.cfg", tp, "val_flag", shards=6)
    for r in rej:
        sid = r["script"] or ""
        ev = r["event"]
        what = "the steps of Flag::poll / Flag::raise are not those of Flag.tla"
        if ev["e"] == "stuck":
            what = "a waiting task was never woken although the flag was raised (lost wake-up)"
        elif r.get("invariant"):
            what = "Flag.tla invariant %s fails on this run" % r["invariant"]
        path = vlib.save_replay(prop, "flag_%s_%s" % (sid, vlib.digest(ev)), dict(
            kind="flag-trace", property=prop, script=by_id.get(sid), rejected_at_line=r["line"], event=ev, why=what,
            trace=[json.loads(x) for x in r["lines"]]))
        violations.append(("%s (multi-threaded Flag): %s at line %d (%s)" % (sid, what, r["line"], ev["e"]), path))
    with open(tp) as f:
        text = f.read()
    extra = dict(flag_scenarios=total, flag_scenarios_accepted=acc,
                 flag_rechecks_under_lock_that_saw_the_raise=text.count('"e":"flag_check"') - text.count('"e":"flag_reg"'),
                 flag_wakeups=text.count('"e":"woken"'), flag_model_states=mcs["distinct"],
                 flag_tlaps_obligations_proved=proof)
    return violations, extra, mcs, stats
