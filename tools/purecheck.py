"""Checks whose specification is a decision spec (spec/pure): TLC checks the laws on the
reference, enumerates the universe as cases with expected answers, the real code answers each
case (harness/src/bin/pure_runner.rs), and the answers are compared here."""
import json, os, random, re, subprocess, sys, time
import vlib
from vlib import log

CASE_RE = re.compile(r'<<\s*"CASE",\s*"((?:[^"\\]|\\.)*)"\s*>>', re.S)


def parse_cases(out):
    cases = []
    for m in CASE_RE.finditer(out):
        cases.append(json.loads(json.loads('"' + m.group(1).replace("\n", "") + '"')))
    return cases


def as_set(x):
    return sorted(x, key=lambda v: json.dumps(v, sort_keys=True))


# ---------------------------------------------------------------- per-property comparison

def cmp_c20(case, got):
    """-> list of (what, key) mismatches; key identifies the failing input for known findings."""
    bad = []
    if "vcs" in case:
        for name, g in got.items():
            want_v, want_s = name in case["vcs"], name in case["soft"]
            if (g["vcs"], g["soft"]) != (want_v, want_s):
                bad.append(("ProjectType::%s: is_vcs=%s is_soft=%s, documented category is %s"
                            % (name, g["vcs"], g["soft"], "version control" if want_v else "software suite"),
                            "type:" + name))
        missing = set(case["vcs"]) | set(case["soft"])
        for name in missing - set(got):
            bad.append(("project type %s of the specification is unknown to the harness" % name, "type:" + name))
        return bad
    if got.get("panic"):
        return [("panic", "panic")]
    if sorted(got["origins"]) != sorted(case["origins"]):
        bad.append(("origins: got levels %s, expected %s" % (sorted(got["origins"]), sorted(case["origins"])),
                    "origins"))
    if got["off_chain"]:
        bad.append(("origin outside the ancestor chain: %s" % got["off_chain"], "off_chain"))
    for i, (g, w) in enumerate(zip(got["types"], case["types"])):
        if sorted(g) != sorted(w):
            bad.append(("types at level %d: got %s, expected %s" % (i + 1, sorted(g), sorted(w)), "types"))
    return bad


def nontrivial_c20(case):
    if "vcs" in case:
        return True
    return any(len(l) > 0 for l in case["chain"])


CONSTRUCTIONS = ["new", "new_again", "new_permuted", "new_then_add", "empty_then_add_permuted"]


def cmp_c03(case, got):
    bad = []
    if got.get("panic"):
        return [("panic while building or querying the filter", "panic")]
    files = "; ".join("%s:[%s]" % ("/".join(f["loc"]) or ".", ", ".join(f["lines"])) for f in case["files"])
    for name in CONSTRUCTIONS:
        res = got.get(name)
        if isinstance(res, dict) and "error" in res:
            bad.append(("construction %s failed: %s (files %s)" % (name, res["error"], files), "construct:" + name))
            continue
        for e, g in zip(case["expect"], res):
            if e["v"] == "any":
                continue
            want = e["v"] == "ignored"
            path = "/".join(e["path"])
            if g["ignored"] != want:
                key = name
                bad.append(("%s: %s %s is %s, expected %s; ignore files %s"
                            % (name, "dir" if e["dir"] else "file", path,
                               "ignored" if g["ignored"] else "kept", e["v"], files), key))
            elif e["dir"] and g["check_dir_ignored"] != want:
                key = "check_dir:" + name
                bad.append(("%s: check_dir(%s) says %s, expected %s; ignore files %s"
                            % (name, path, "ignored" if g["check_dir_ignored"] else "kept", e["v"], files), key))
    return bad


def nontrivial_c03(case):
    vs = {e["v"] for e in case["expect"]}
    return "ignored" in vs and "kept" in vs


def cmp_c12(case, got):
    if got.get("panic") or got.get("error"):
        return [("the CLI failed to build its filterer: %s" % (got.get("error") or "panic"), "error")]
    bad = []
    flags = " ".join("--" + f for f in sorted(case["flags"])) or "(no flags)"
    if case.get("watchfile"):
        flags += " (with -w on the file the VCS ignore file names)"
    e = case["expect"]
    def chk(name, want, gotv, key):
        if gotv is not want:
            bad.append(("%s with option %s: %s %s, expected to %s"
                        % (flags, case["opt"], name, "passes" if gotv is True else ("is rejected" if gotv is False else gotv),
                           "pass" if want else "be rejected"), key))
    for src, want in e["sources"].items():
        chk("probe of ignore source %s" % src, want, got["sources"][src], "source:%s|%s" % (src, flags))
    chk("unmatched file", e["plain"], got["plain"], "plain|" + case["opt"])
    chk("probe of explicit option --%s" % case["opt"], e["explicit"], got["explicit"],
        "explicit:%s|%s" % (case["opt"], flags))
    for src, want in (e.get("outside") or {}).items():
        chk("probe of %s in a watched directory outside the project origin" % src, want, (got.get("outside") or {}).get(src),
            "outside:%s|%s|%s" % (src, case["opt"], flags))
    chk("create event", e["create"], got["create"], "create|" + case["opt"])
    chk("modify event", e["modify"], got["modify"], "modify|" + case["opt"])
    return bad


def _p(comps):
    return "/" + "/".join(comps)


def cmp_c17(case, got):
    if got.get("panic") or got.get("error"):
        return [("summarising panicked or failed: %s" % got.get("error"), "error")]
    bad = []
    common = case["common"]
    has_paths = common != ["none"]
    for api in ("lib", "cli"):
        env = got[api]
        want_common = _p(common) if has_paths else None
        if env.get("COMMON") != want_common:
            bad.append(("%s: COMMON is %r, expected %r" % (api, env.get("COMMON"), want_common), api + ":common"))
        for var, entries in case["vars"].items():
            want = sorted({"/".join(e) for e in entries}, key=lambda x: x.encode())
            raw = env.get(var)
            gotl = [] if raw is None else raw.split(":")
            if gotl != want:
                kind = "entries"
                if sorted(set(gotl), key=lambda x: x.encode()) == want:
                    kind = "order-or-duplicates"
                bad.append(("%s: %s lists %r, expected %r (byte-sorted, unique)" % (api, var, gotl, want), "%s:%s" % (api, kind)))
        extra = set(env) - set(case["vars"]) - {"COMMON"}
        if extra:
            bad.append(("%s: unexpected variables %s" % (api, sorted(extra)), api + ":extra"))
    want_lines = ["%s:%s" % (l["k"], _p(l["path"])) for l in case["lines"]]
    if got["lines"] != want_lines:
        bad.append(("line format gives %r, expected %r" % (got["lines"], want_lines), "lines"))
    return bad


def _subst(v, b):
    if v in b:
        return b[v]
    if v == "0":
        return 0
    return v


def _doc(doc, b):
    """spec document (field -> value, '-' = absent) with placeholders bound -> JSON object"""
    return {k: _subst(v, b) for k, v in doc.items() if v != "-"}


def cmp_c16(case, got):
    if got.get("panic") or got.get("error"):
        return [("JSON conversion panicked or failed: %s" % got.get("error"), "error")]
    bad = []
    if "shape" in case:
        for v in got["variants"]:
            want = _doc(case["doc"], v["bind"])
            if v["json"] != want:
                bad.append(("tag %s serialises as %s, documented form is %s" % (case["shape"], json.dumps(v["json"]), json.dumps(want)),
                            "format:" + case["shape"]["k"]))
            if not v["roundtrip"]:
                bad.append(("tag %s does not survive the round trip: %s" % (case["shape"], json.dumps(v["json"])),
                            "roundtrip:" + case["shape"]["k"]))
        if not got.get("events_ok", True):
            bad.append(("a generated event does not survive the round trip: %s" % got.get("events_bad"), "roundtrip:event"))
    else:
        want = _doc(case["redoc"], got["bind"])
        if got["json"] != want:
            bad.append(("tag object %s parses to %s, expected %s" % (json.dumps(got["input"]), json.dumps(got["json"]), json.dumps(want)),
                        "decode:%s->%s" % (case["obj"]["kind"], case["tag"]["k"])))
    return bad


def cmp_c11(case, got):
    if got.get("panic") or got.get("error"):
        return [("building or querying the filterer failed: %s" % got.get("error"), "error")]
    bad = []
    cfg = "filters %s ignores %s exts %s whitelist %s ignore-file %s" % (
        case["filters"], case["ignores"], case.get("extlist", ["o"] if case["exts"] else []), ["/".join(w) for w in case["whitelist"]], case["ignorefile"])
    for e, g in zip(case["expect"], got["pass"]):
        if g is not e["pass"]:
            ev = " + ".join("%s(%s)" % ("/".join(p["path"]), "typed" if p["ft"] == "known" else "untyped") for p in e["ev"]) or "(no path)"
            kind = "pass-expected-reject" if g is True else "reject-expected-pass"
            bad.append(("event %s %s, expected to %s; %s" % (ev, "passes" if g is True else "is rejected" if g is False else g,
                                                              "pass" if e["pass"] else "be rejected", cfg), kind))
    return bad


def cmp_c14(case, got):
    if got.get("panic") or got.get("error"):
        return [("discovery failed: %s" % got.get("error"), "error")]
    bad = []
    want = {("/".join(e["loc"]), e["kind"], e["applies_to"]) for e in case["expect"]}
    have = {("/".join(f["loc"]), f["kind"], f["applies_to"]) for f in got["found"]}
    desc = "files %s exclude %s watches %s" % (
        sorted("%s/%s=%s" % ("/".join(f["loc"]) or ".", f["kind"], f["lines"]) for f in case["files"]),
        ["%s=%s" % (f["kind"], f["lines"]) for f in case["exclude"]] or "-", ["/".join(w) for w in case["watches"]])
    for m in sorted(want - have):
        bad.append(("not found: %s %s (%s); %s" % (m[0] or ".", m[1], m[2], desc), "missing"))
    for m in sorted(have - want):
        bad.append(("found but should not be: %s %s (%s); %s" % (m[0] or ".", m[1], m[2], desc), "unexpected"))
    for f in got["found"]:
        if not f["applies_in_ok"]:
            bad.append(("%s %s is tagged with the wrong directory; %s" % ("/".join(f["loc"]) or ".", f["kind"], desc), "applies_in"))
    if got["errors"]:
        bad.append(("discovery reported errors %s; %s" % (got["errors"], desc), "errors"))
    return bad


def cmp_c18(case, got):
    if got.get("panic") or got.get("error"):
        return [("spawning failed: %s" % got.get("error"), "error")]
    bad = []
    def txt(hs):
        return [bytes.fromhex(h).decode("utf-8", "replace") for h in hs]
    if got["argv"] != got["expected_argv"]:
        if case["cmd"]["kind"] == "cli":
            bad.append(("command line %r: the %s received %r, expected %r" % (got.get("cli_argv"), "program" if case["cmd"]["shell"] in ("none", "n") else "shell", txt(got["argv"]), txt(got["expected_argv"])), "argv:cli"))
        else:
          bad.append(("%s command %s: the child received %r, expected %r" % (case["cmd"]["kind"], case["cmd"], txt(got["argv"]), txt(got["expected_argv"])),
                    "argv:" + case["cmd"]["kind"]))
    p = case["place"]
    if got["own_group"] != p["own_group"] or (not p["own_group"] and not got["parent_group"]):
        bad.append(("mode %s: child in its own process group = %s, expected %s" % (case["mode"], got["own_group"], p["own_group"]), "group:" + case["mode"]))
    if got["own_session"] != p["own_session"] or (not p["own_session"] and not got["parent_session"]):
        bad.append(("mode %s: child in its own session = %s, expected %s" % (case["mode"], got["own_session"], p["own_session"]), "session:" + case["mode"]))
    if not got["cwd_ok"]:
        bad.append(("the working directory set by the spawn hook is not the child's", "cwd"))
    if not got["env_ok"]:
        bad.append(("the environment variable set by the spawn hook did not reach the child intact"
                    + (" (--emit-events-to=%s)" % case["emit"] if case.get("emit", "default") != "default" else ""), "env"))
    # whether WATCHEXEC_EVENTS_FILE is named in the two file modes (events_file) is in the specification and is
    # recorded, but it is not judged here: C18 speaks of the variables the hook sets reaching the child, not of
    # which variables the CLI chooses to set (a renamed variable would be an alarm on a tree where C18 holds)
    return bad


def cmp_c19(case, got):
    k = case["kind"]
    if got.get("error"):
        return [("%s %s: %s" % (k, got.get("text", ""), got["error"]), "error:" + k)]
    if k == "map":
        want = [list(case["expect"])]
        if got.get("maps") != want:
            return [("--map-signal %s parses to %s, expected %s (from, to; -1 = discard)" % (got.get("text"), got.get("maps"), want), "map")]
        return []
    if k == "status":
        e = case["expect"]
        if got["d"] != e["d"] or got["v"] != e["v"]:
            return [("wait status %#06x decodes to %s(%s), expected %s(%s)" % (case["raw"], got["d"], got["v"], e["d"], e["v"]),
                     "status:" + e["d"])]
        if got.get("back") != e["back"]:
            return [("wait status %#06x: the portable form %s(%s) converts back to %s, expected %#06x" % (case["raw"], got["d"], got["v"],
                     ("%#06x" % got["back"]) if isinstance(got.get("back"), int) else got.get("back"), e["back"]), "status-back:" + e["d"])]
        return []
    bad = []
    if got["n"] != case["expect"]:
        bad.append(("%s %r gives OS signal %s, expected %s" % (k, got.get("text", case.get("n")), got["n"], case["expect"]), k))
    if k == "display_first" and got.get("direct") != case["expect"]:
        bad.append(("first-class signal %s maps to OS signal %s, expected %s" % (case["name"], got.get("direct"), case["expect"]), k))
    return bad


SPECS = {
    "C18": dict(
        module="SpawnArgv.tla", runner="spawn", cmp=cmp_c18, nontrivial=lambda c: len(c["argv"]) >= 1,
        cfgs=dict(quick=["SpawnArgv.cfg"], thorough=["SpawnArgv.cfg"]), quick_cap=1500,
        always=lambda c: c.get("via", "start") != "start" or "+" in c["mode"] or c["cmd"]["kind"] == "cli",
        rule="commands with at least one argument; distinct by (command shape, spawn option); tokens are bound to one of six families of awkward strings per case (empty, spaces and tabs, quotes, $ ` $( ), glob characters, newline, backslash, shell operators, multi-byte text, option look-alikes)",
        exhaustive=True,
        assumptions=["SpawnArgv.tla: argument vectors of up to 3 tokens, shells with up to 2 options, with / without a program option, up to 2 extra arguments, the three basic spawn options for all and every combination of grouped / session / reset_sigmask for the short commands",
                     "a real helper process reports its argv bytes, pid, process group, session, working directory and environment; byte fidelity below std::process and process-wrap is the operating system's",
                     "quick tier: a seeded sample of 1500 of the 5035 cases (all respawn variants and all option combinations are always kept); thorough: all"],
    ),
    "C14": dict(
        module="Discover.tla", runner="discover", cmp=cmp_c14, seeded=True, workers=8,
        nontrivial=lambda c: any(f["lines"] for f in c["files"]),
        cfgs=dict(quick=["Discover_one.cfg", "Discover_origin.cfg", "Discover_two.cfg", "Discover_sample.cfg"],
                  thorough=["Discover_one.cfg", "Discover_origin.cfg", "Discover_two.cfg", "Discover_sample_big.cfg"]),
        rule="configurations with at least one non-empty ignore file; distinct by (files with their lines, origin-level files, explicit watches); every one is also explored by TLC under every directory listing order",
        exhaustive=False,
        assumptions=["Discover.tla: a fixed tree (test, tests, a, .git, _darcs, test/sub, tests/sub), ignore files of the three walked kinds in four directories (and inside _darcs) with seven possible contents, the origin-level files (.git/info/exclude, .bzrignore, _darcs/prefs/boring, .fossil-settings/ignore-glob, git's core.excludesFile, one explicit ignore file) alone and in contradicting pairs, optional explicit watches",
                     "the real tree is created in several directory-creation orders; the listing orders themselves are explored exhaustively on the model of the walker",
                     "core.excludesFile is given as an absolute path (no ~ or %(prefix) interpolation); .hg / .bzr / .svn / .pijul / .fossil-settings metadata directories are represented by .git and _darcs"],
    ),
    "C11": dict(
        module="GlobsetVerdict.tla", runner="globset", cmp=cmp_c11, seeded=True, workers=8,
        nontrivial=lambda c: any(e["pass"] for e in c["expect"]) and any(not e["pass"] for e in c["expect"]),
        cfgs=dict(quick=["GlobsetVerdict_one.cfg", "GlobsetVerdict_pairs.cfg", "GlobsetVerdict_sample.cfg"],
                  thorough=["GlobsetVerdict_one.cfg", "GlobsetVerdict_pairs.cfg", "GlobsetVerdict_sample_big.cfg"]),
        rule="configurations under which at least one probe event passes and at least one is rejected; each configuration is judged on 55 events (no path, 18 single paths typed/untyped, 36 two-path events)",
        exhaustive=False,
        assumptions=["GlobsetVerdict.tla is the documented rule; Glob.tla supplies the per-path facts for the 14 patterns of its table, matched against the path itself, rooted at the origin",
                     "probes are inside the origin; the watchexec 1.x double-slash compatibility branch is exercised as written"],
    ),
    "C17": dict(
        module="PathSummary.tla", runner="paths", cmp=cmp_c17, seeded=True,
        nontrivial=lambda c: c["common"] != ["none"] and any(c["vars"].values()),
        cfgs=dict(quick=["PathSummary_single.cfg", "PathSummary_sample.cfg"],
                  thorough=["PathSummary_single.cfg", "PathSummary_sample_big.cfg"]),
        rule="batches with at least one pathed event carrying a kind; distinct by the whole batch",
        exhaustive=False,
        assumptions=["paths are abstract component sequences over a small pool (shared and disjoint prefixes, a path equal to the common prefix, a name containing '-', which sorts before '/'); the functions under test do not touch the filesystem",
                     "byte order and de-duplication of the joined entries are checked on the real output by the comparison tool; the set of entries, the common path and the line sequence come from PathSummary.tla",
                     "path names containing the separator ':' are outside the universe"],
    ),
    "C16": dict(
        module="EventJson.tla", runner="eventjson", cmp=cmp_c16, nontrivial=lambda c: True, workers=8,
        cfgs=dict(quick=["EventJson_shapes.cfg", "EventJson_decode.cfg"],
                  thorough=["EventJson_shapes.cfg", "EventJson_decode.cfg"]),
        rule="every tag shape (77) and every tag object of a known kind over all subsets of the ten optional fields (19456) is a distinct case; each shape is concretised with boundary and seeded-random leaves",
        exhaustive=True,
        assumptions=["EventJson.tla (Doc, Decode) is the documented format; unbounded leaves (paths, pids, codes, custom signal numbers, metadata) are placeholders concretised by the harness with boundary and seeded-random values",
                     "serde_json is trusted for JSON syntax; the check is about the mapping between events and JSON values"],
    ),
    "C19": dict(
        module="Signals.tla", runner="signals", cmp=cmp_c19, nontrivial=lambda c: True,
        cfgs=dict(quick=["Signals.cfg"], thorough=["Signals.cfg"]),
        rule="every row of the table is a distinct case: 31 signals x 3 spellings x 3 letter cases, 13 control names x 3 cases, display round trips, 256 exit codes, 31 signals x core bit",
        exhaustive=True,
        assumptions=["Linux signal numbering (1..31, the signals nix knows); real-time signals are outside the table",
                     "the Windows control names are parsed on every platform, as the crate documents; Windows display forms are not exercised on this platform"],
    ),
    "C12": dict(
        module="CliIgnoreFlags.tla", runner="cliflags", cmp=cmp_c12, nontrivial=lambda c: True,
        cfgs=dict(quick=["CliIgnoreFlags.cfg"], thorough=["CliIgnoreFlags.cfg"]),
        rule="every (flag set, explicit option) pair is a distinct case: 64 x 7; each is judged on 9 probe events",
        exhaustive=True,
        assumptions=["the documented meaning of each flag (help text) is the reference: which ignore sources it removes",
                     "one shared project (.git, .gitignore, .ignore) and fake HOME / XDG_CONFIG_HOME (git/ignore, watchexec/ignore) stand for the five sources",
                     "argv goes through the CLI's own parser and normalisation (cfg(watchexec_verif) module of the CLI library)"],
    ),
    "C03": dict(
        module="IgnoreScope.tla", runner="ignore", cmp=cmp_c03, nontrivial=nontrivial_c03, seeded=True,
        cfgs=dict(quick=["IgnoreScope_single.cfg", "IgnoreScope_sample.cfg"],
                  thorough=["IgnoreScope_single.cfg", "IgnoreScope_pairs.cfg", "IgnoreScope_sample_big.cfg"]),
        rule="cases (a set of ignore files with their lines) in which at least one probe is ignored and at least one is kept; each case is judged on 20 probes and 5 constructions of the filter",
        exhaustive=False,
        assumptions=["IgnoreScope.tla is the reference: nearest directory first, last matching line wins, path before its parents, then globals",
                     "not judged (git and the glob library differ, or the property leaves it open): a directory versus an ignore file in that very directory; re-inclusion below an excluded parent; a parent directory re-included by a nearer file while the path itself is ignored by a farther one; a directory d against a pattern d/**; anchored global patterns seen from outside the origin",
                     "wherever the specification has an opinion on a path inside the origin, `git check-ignore --no-index` shares it (tools/gitoracle.py; coverage.git_oracle)",
                     "the single-pattern glob semantics of the reference cover only the grammar of the pattern table in the spec"],
    ),
    "C20": dict(
        module="Origins.tla", runner="origins", cmp=cmp_c20, nontrivial=nontrivial_c20,
        cfgs=dict(quick=["Origins_types.cfg", "Origins_table.cfg", "Origins_pairs.cfg", "Origins_quick.cfg"],
                  thorough=["Origins_types.cfg", "Origins_table.cfg", "Origins_pairs.cfg", "Origins_quick.cfg",
                            "Origins_chains2.cfg", "Origins_chains4.cfg"]),
        rule="cases with at least one entry placed in some directory of the chain (plus the type classification case); distinct by (chain contents, start level)",
        exhaustive=True,
        assumptions=["the marker table and the VCS / software-suite classification in Origins.tla are transcribed from the crate's documentation and are the reference",
                     "directories above the scratch root are outside the universe: results there are only required to be ancestors of the start path"],
    ),
}


def run(prop, tier, replay=None):
    t0 = time.time()
    spec = SPECS[prop]
    vlib.build_harness()
    wd = vlib.workdir("pure_" + prop)
    violations, cases = [], []
    states = trans = 0
    laws = []
    if replay:
        with open(replay) as f:
            payload = json.load(f)
        cases = [payload["case"]]
    else:
        for cfg in spec["cfgs"][tier]:
            r = vlib.tlc(spec["module"], cfg, os.path.join(wd, "tlc_" + cfg.replace(".cfg", "")),
                         workers=spec.get("workers", 4), timeout=3000,
                         extra=["-seed", str(vlib.seed())] if spec.get("seeded") else None)
            if r["error"]:
                sys.stderr.write(r["out"][-4000:])
                raise vlib.ToolError("TLC failed on %s/%s" % (spec["module"], cfg))
            states += r["distinct"]
            trans += max(r["generated"], 1)
            if r["violated"]:
                path = vlib.save_replay(prop, "law_" + r["violated"],
                                        dict(kind="model", invariant=r["violated"], cfg=cfg,
                                             tlc_tail=r["out"][-5000:]))
                violations.append(("law %s of the reference is violated (%s)" % (r["violated"], cfg), path))
            got, seen = [], set()
            for c in parse_cases(r["out"]):      # TLC may evaluate (and print) a state twice
                k = json.dumps(c, sort_keys=True)
                if k not in seen:
                    seen.add(k)
                    got.append(c)
            if not got and not r["violated"]:
                raise vlib.ToolError("no cases printed by %s" % cfg)
            for c in got:
                c["cfg"] = cfg
            cases += got
            laws.append(cfg)
    # sample in quick tier if a spec asks for it
    cap = spec.get("quick_cap")
    rng = random.Random(vlib.seed())
    total_universe = len(cases)
    if tier == "quick" and cap and len(cases) > cap:
        keep = [c for c in cases if spec.get("always", lambda c: False)(c)]
        rest = [c for c in cases if not spec.get("always", lambda c: False)(c)]
        cases = keep + rng.sample(rest, max(0, min(len(rest), cap - len(keep))))
    for i, c in enumerate(cases):
        c["case"] = i
    cp, rp = os.path.join(wd, "cases.ndjson"), os.path.join(wd, "results.ndjson")
    with open(cp, "w") as f:
        for c in cases:
            f.write(json.dumps(c) + "\n")
    cmd = [os.path.join(vlib.BIN, "pure_runner"), spec["runner"], cp, rp]
    p = subprocess.run(cmd, stdout=subprocess.PIPE, stderr=subprocess.STDOUT, text=True, timeout=3000)
    results = {}

    def load():
        results.clear()
        if os.path.exists(rp):
            with open(rp) as f:
                for line in f:
                    try:
                        r = json.loads(line)
                    except ValueError:
                        continue
                    results[r["case"]] = r["got"]

    if p.returncode != 0:
        sys.stderr.write("pure_runner exited with %s; last output:\n%s\n" % (p.returncode, p.stdout[-1500:]))
        # the code under test took the whole process down (abort, stack overflow): that is data.
        # Re-run one case at a time, appending results, and pin each crash on the case it happened in.
        if os.path.exists(rp):
            os.remove(rp)
        start, crashes = 0, 0
        while start < len(cases) and crashes < 20:
            q = subprocess.run(cmd + ["--incremental", str(start)], stdout=subprocess.PIPE,
                               stderr=subprocess.STDOUT, text=True, timeout=3000)
            load()
            if q.returncode == 0:
                break
            done = [i for i in range(len(cases)) if i in results]
            crashed = (max(done) + 1) if done else start
            if crashed >= len(cases):
                break
            results[crashed] = dict(panic=True, error="the process aborted: " + q.stdout.strip().splitlines()[-1][:200] if q.stdout.strip() else "the process aborted")
            with open(rp, "a") as f:
                f.write(json.dumps(dict(case=crashed, got=results[crashed])) + "\n")
            crashes += 1
            start = crashed + 1
        load()
        if crashes == 0 and len(results) != len(cases):
            sys.stderr.write(p.stdout[-3000:])
            raise vlib.ToolError("pure_runner failed")
        # after 20 crashes the remaining cases are not run; the crashes themselves are the verdict
        cases = [c for c in cases if c["case"] in results]
    else:
        load()
    if len(results) != len(cases):
        raise vlib.ToolError("runner answered %d of %d cases" % (len(results), len(cases)))
    agreed = 0
    distinct = set()
    seen_keys = {}
    for c in cases:
        if spec["nontrivial"](c):
            distinct.add(vlib.digest({k: v for k, v in c.items() if k not in ("case", "cfg")}))
        bad = spec["cmp"](c, results[c["case"]])
        if not bad:
            agreed += 1
            continue
        for what, key in bad:
            n = seen_keys.get(key, 0)
            seen_keys[key] = n + 1
            if n >= 5:      # one replay file per kind of mismatch is enough; count the rest
                continue
            path = vlib.save_replay(prop, "%s_%s" % (re.sub(r"\W+", "_", key)[:30], vlib.digest(c)),
                                    dict(kind="case", property=prop, case=c, got=results[c["case"]], what=what))
            violations.append((what, path))
    samples = []
    for c in cases[len(cases) // 2: len(cases) // 2 + 2] or cases[:1]:
        samples.append(dict(case={k: v for k, v in c.items() if k != "cfg"}, got=results[c["case"]]))
    coverage = dict(
        states=max(states, 1), transitions=max(trans, 1),
        traces_validated_against_impl=agreed,
        evaluations=len(cases), distinct_nontrivial=len(distinct), rule=spec["rule"],
        universe=total_universe,
        exhaustive=bool(spec.get("exhaustive")) and len(cases) == total_universe and not replay,
        samples=samples, mismatch_kinds=seen_keys,
        checker_cmd="tlc %s -config {%s} ; pure_runner %s" % (spec["module"], ",".join(laws), spec["runner"]),
    )
    if prop == "C03" and not replay:
        # the specification itself against git: wherever IgnoreScope.tla has an opinion, `git check-ignore`
        # must share it (a disagreement is a defect of the specification, not of watchexec: it is recorded
        # in the evidence and printed, it does not make the check fail)
        q = subprocess.run([sys.executable, os.path.join(os.path.dirname(os.path.abspath(__file__)), "gitoracle.py"), cp,
                            "400" if tier == "quick" else "4000"], stdout=subprocess.PIPE, stderr=subprocess.STDOUT, text=True)
        m = re.search(r"cases compared with git: (\d+), probes: (\d+), disagreements: (\d+)", q.stdout)
        if m:
            coverage["git_oracle"] = dict(cases=int(m.group(1)), probes=int(m.group(2)), disagreements=int(m.group(3)))
            if int(m.group(3)):
                sys.stderr.write("IgnoreScope.tla disagrees with git check-ignore:\n" + q.stdout[-2000:])
    vlib.write_evidence(prop, tier, coverage, time.time() - t0, len(violations), spec["assumptions"])
    return violations
