"""C08, real-process tier: a real Watchexec quits while real commands (process groups, sessions,
grandchildren, commands that ignore the signal) run; the recorded outcome is validated against
ProcQuit.tla (ProcTrace), whose outcomes MC_ProcQuit checks against the property."""
import itertools, json, os, random, subprocess, sys
import vlib

WRAPS = ["group", "session", "none"]
CLASSES = ["dies", "ignores", "fork_dies", "fork_ignores", "ignores_fork_dies", "daemon"]
KEY = "group-member-survives:"


def known_classes():
    return sorted(k["key"][len(KEY):] for k in vlib.open_findings("C08") if k.get("key", "").startswith(KEY))


def scripts_for(tier, rng):
    out, k = [], 0

    def add(origin, manner, grace, jobs):
        nonlocal k
        out.append(dict(id="p%04d" % k, origin=origin, manner=manner, grace_ms=grace, jobs=jobs))
        k += 1

    graces = [0, 300] if tier == "quick" else [0, 200, 700]
    for w, c in itertools.product(WRAPS, CLASSES):
        for g in graces:
            add("single", "graceful", g, [dict(wrap=w, cls=c, pre="start")])
        add("single", "abort", 0, [dict(wrap=w, cls=c, pre="start")])
    # a graceful stop already pending when the quit arrives
    for w, c in itertools.product(["group", "none"], CLASSES):
        add("pending-stop", "graceful", 300, [dict(wrap=w, cls=c, pre="gstop")])
        if tier != "quick":
            add("pending-stop", "abort", 300, [dict(wrap=w, cls=c, pre="gstop")])
    # never started / already stopped
    for w in WRAPS:
        for pre in ("none", "stop"):
            for manner in ("graceful", "abort"):
                add("idle", manner, 300, [dict(wrap=w, cls="ignores" if pre == "stop" else "dies", pre=pre)])
    # several jobs at once
    n = 16 if tier == "quick" else 150
    for _ in range(n):
        jobs = [dict(wrap=rng.choice(WRAPS), cls=rng.choice(CLASSES), pre=rng.choice(["start", "start", "start", "gstop", "none"]))
                for _ in range(rng.choice([2, 2, 3]))]
        add("several", rng.choice(["graceful", "graceful", "abort"]), rng.choice(graces), jobs)
    return out


def cli_scripts_for(tier, rng):
    """the real command-line program, told to quit by SIGINT / SIGTERM"""
    out, k = [], 0
    timeouts = [300] if tier == "quick" else [0, 200, 600]
    for w, c in itertools.product(WRAPS, CLASSES):
        for sig in ("INT", "TERM"):
            for g in timeouts:
                out.append(dict(id="e%04d" % k, origin="cli-signal", wrap=w, cls=c, quit_sig=sig, stop_timeout_ms=g,
                                manner="graceful", grace_ms=g, jobs=[dict(wrap=w, cls=c, pre="start")]))
                k += 1
    for w, c in itertools.product(["group", "none"], ["dies", "ignores", "fork_dies"]):
        out.append(dict(id="e%04d" % k, origin="cli-signal", wrap=w, cls=c, quit_sig="TERM", stop_timeout_ms=300, stop_signal="HUP",
                        manner="graceful", grace_ms=300, jobs=[dict(wrap=w, cls=c, pre="start")]))
        k += 1
    return out


def drive(scripts, name, driver="proc_driver"):
    d = vlib.workdir(name)
    sp, tp = os.path.join(d, "scripts.ndjson"), os.path.join(d, "traces.ndjson")
    with open(sp, "w") as f:
        for s in scripts:
            f.write(json.dumps(s) + "\n")
    p = subprocess.run([os.path.join(vlib.BIN, driver), sp, tp, "--threads", "8"],
                       stdout=subprocess.PIPE, stderr=subprocess.STDOUT, text=True, timeout=3600)
    if p.returncode != 0:
        sys.stderr.write(p.stdout[-3000:])
        raise vlib.ToolError(driver + " failed")
    return tp


def scenarios(tp):
    with open(tp) as f:
        return vlib.split_scenarios(f.readlines())


def driver_trouble(sc):
    return any('"e":"driver_error"' in ln or '"e":"driver_panic"' in ln for ln in sc)


def run(prop, tier, rng, replay_script=None):
    """-> (violations, coverage-extra dict)"""
    violations = []
    known = known_classes()
    # the model: every configuration of up to two jobs; the recorded findings are the only exceptions
    cfg_text = ("SPECIFICATION MCSpec\nCONSTANTS\n  MaxJobs = 2\n  KnownClasses = {%s}\n"
                "INVARIANTS QuitTerminates CommandsGone MembersGoneButKnown NoEarlyKill\nCHECK_DEADLOCK FALSE\n"
                % ", ".join('"%s"' % c for c in known))
    with open(os.path.join(vlib.SPEC, "mc", "MC_ProcQuit.cfg")) as f:
        if f.read() != cfg_text:
            raise vlib.ToolError("spec/mc/MC_ProcQuit.cfg does not list the open findings of known_findings.json")
    mc = vlib.tlc_check("MC_ProcQuit.tla", "MC_ProcQuit.cfg", "mc_C08proc", workers=8, timeout=1200)
    if mc["violated"]:
        path = vlib.save_replay(prop, "procmodel_" + mc["violated"], dict(kind="model", invariant=mc["violated"], tlc_tail=mc["out"][-6000:]))
        violations.append(("model invariant %s of ProcQuit violated" % mc["violated"], path))

    if replay_script:
        sets = [([replay_script], "cliproc_driver" if "quit_sig" in replay_script else "proc_driver")]
    else:
        sets = [(scripts_for(tier, rng), "proc_driver"), (cli_scripts_for(tier, rng), "cliproc_driver")]
    scripts = [s for ss, _ in sets for s in ss]
    by_id = {s["id"]: s for s in scripts}
    final_rej, accepted = {}, {}
    tstats = dict(distinct=0, generated=0)
    attempts = 0
    for part, driver in sets:
        todo, tries = list(part), 0
        while todo and tries < 3:
            tries += 1
            attempts = max(attempts, tries)
            tp = drive(todo, "drv_C08%s%d" % (driver[:4], tries), driver)
            scen = scenarios(tp)
            trouble = {json.loads(sc[0])["a"] for sc in scen if driver_trouble(sc)}
            clean = [sc for sc in scen if json.loads(sc[0])["a"] not in trouble]
            ctp = tp + ".clean"
            with open(ctp, "w") as f:
                f.writelines(ln for sc in clean for ln in sc)
            acc, rej, stats, total = vlib.validate_traces("ProcTrace.tla", "ProcTrace.cfg", ctp, "val_C08%s%d" % (driver[:4], tries), shards=4)
            tstats["distinct"] += stats["distinct"]
            tstats["generated"] += stats["generated"]
            rejected = {r["script"]: r for r in rej}
            for sc in clean:
                sid = json.loads(sc[0])["a"]
                if sid not in rejected:
                    accepted[sid] = sc
                    final_rej.pop(sid, None)
            for sid, r in rejected.items():
                final_rej[sid] = r
            # real time and real processes: a script is only held against the code when it fails every time
            todo = [by_id[sid] for sid in list(rejected) + sorted(trouble)]
            if tries == 3 and trouble:
                raise vlib.ToolError("%s could not settle the commands of %s" % (driver, sorted(trouble)))
    for sid, r in final_rej.items():
        ev = r["event"]
        cli = "quit_sig" in by_id[sid]
        what = "the outcome of the quit is not one ProcQuit allows"
        if ev["e"] == "main_hang":
            what = "the command-line program did not exit after the signal" if cli else "the main task did not end after the quit"
        elif ev["e"] == "main_end":
            what = "the %s ended with %r after %d ms (grace %s ms): an error, or a kill before the grace period had elapsed" % (
                "command-line program" if cli else "main task", ev["a"], ev["x"], by_id[sid]["grace_ms"])
        elif ev["e"] == "survivors":
            what = "job %d: %d of its processes were still alive after the shutdown" % (ev["n"], ev["x"])
        path = vlib.save_replay(prop, "%s_%s" % (sid, vlib.digest(ev)), dict(
            kind="proc-trace", property=prop, script=by_id[sid], rejected_at_line=r["line"], event=ev, why=what,
            attempts=3, trace=[json.loads(x) for x in r["lines"]]))
        violations.append(("%s (%s): %s" % (sid, "the command-line program, real processes" if cli else "real processes", what), path))
    # what the conforming runs show about the property itself
    seen_known = {}
    for sid, sc in accepted.items():
        s = by_id[sid]
        for ln in sc:
            e = json.loads(ln)
            if e["e"] != "survivors" or e["x"] == 0:
                continue
            j = s["jobs"][e["n"] - 1]
            if s["manner"] == "graceful" and j["wrap"] in ("group", "session"):
                what = "graceful quit, %s command of class %s: a member of its process group survived" % (j["wrap"] if j["wrap"] == "session" else "grouped", j["cls"])
                key = "class %s: a member of its process group survived" % j["cls"]
                if key not in seen_known:
                    path = vlib.save_replay(prop, "procsurv_%s" % j["cls"], dict(
                        kind="proc-trace", property=prop, script=s, why=what, trace=[json.loads(x) for x in sc]))
                    seen_known[key] = (what, path)
    violations += list(seen_known.values())
    extra = dict(real_process_scripts=len(scripts), real_process_accepted=len(accepted),
                 real_process_cli_scripts=sum(1 for s in scripts if "quit_sig" in s),
                 real_process_attempts=attempts, procquit_model_states=mc["distinct"],
                 real_process_families=sorted({s.get("origin", "?") for s in scripts}))
    return violations, extra, mc, tstats
