"""Checks of the job family: C04, C06, C07, C09, C10."""
import json, os, random, subprocess, sys, time
import vlib, jobgen
from vlib import log


def run_driver(scripts, name, reps=1, threads=12):
    d = vlib.workdir(name)
    sp, tp = os.path.join(d, "scripts.ndjson"), os.path.join(d, "traces.ndjson")
    jobgen.dump(scripts, sp)
    cmd = [os.path.join(vlib.BIN, "job_driver"), sp, tp, "--threads", str(threads)]
    if reps > 1:
        cmd += ["--reps", str(reps)]
    p = subprocess.run(cmd, stdout=subprocess.PIPE, stderr=subprocess.STDOUT, text=True, timeout=3600)
    if p.returncode != 0:
        sys.stderr.write(p.stdout[-3000:])
        raise vlib.ToolError("job_driver failed")
    return tp


def scripts_for(prop, tier, rng):
    q = tier == "quick"
    if prop == "C09":
        s = jobgen.exhaustive_single()
        s += jobgen.exhaustive_pairs() if not q else rng.sample(jobgen.exhaustive_pairs(), 400)
        s += jobgen.mixed_scripts(rng, 600 if q else 6000)
        s += rng.sample(jobgen.graceful_grid(), 300) if q else jobgen.graceful_grid()
        s += jobgen.ticket_scripts(rng, 300 if q else 3000)
        s += jobgen.hook_scripts(rng, 500 if q else 5000)
        s += jobgen.long_scripts(rng, 40 if q else 400)
        s += jobgen.graceful_fault_grid()
        r = jobgen.raw_scripts(rng, 200 if q else 2000)
        s += rng.sample(r, 400) if q else r
        return s
    if prop == "C04":
        return (rng.sample(jobgen.exhaustive_pairs(), 300 if q else 1296) +
                jobgen.mixed_scripts(rng, 1200 if q else 12000, maxlen=10) + jobgen.long_scripts(rng, 40 if q else 400) +
                (rng.sample(jobgen.raw_scripts(rng, 300), 500) if q else jobgen.raw_scripts(rng, 3000)))
    if prop == "C06":
        g = jobgen.graceful_grid()
        f = jobgen.graceful_fault_grid()
        return (g if not q else rng.sample(g, 1200)) + jobgen.mixed_scripts(rng, 300 if q else 4000) + \
            (f if not q else rng.sample(f, 300))
    if prop == "C07":
        return jobgen.ticket_scripts(rng, 1500 if q else 15000) + \
            rng.sample(jobgen.exhaustive_single(), 300) + jobgen.long_scripts(rng, 40 if q else 400) + \
            jobgen.graceful_fault_grid()
    if prop == "C10":
        return jobgen.order_scripts(rng, 400 if q else 3000)
    raise ValueError(prop)


LEVEL_RULE = {
    "C04": "scripts whose trace contains at least two spawn events (a second process was started)",
    "C06": "scripts in which a graceful control found a running process (a signal followed a GracefulStop/TryGracefulRestart dequeue)",
    "C07": "scripts in which some ticket resolved through a path other than its own control's immediate completion (grace timer, process end, job end, error path) or had >1 waiter",
    "C09": "scripts with at least one spawn and at least three executed controls, distinct by (operations, gaps, child behaviours)",
    "C10": "scripts in which controls of at least two different priorities were pending at the same dequeue",
}


def nontrivial(prop, scen_lines):
    evs = [json.loads(x) for x in scen_lines]
    names = [e["e"] for e in evs]
    if prop == "C04":
        return names.count("spawn") >= 2
    if prop == "C06":
        for i, e in enumerate(evs[:-1]):
            if e["e"] == "deq" and e["a"] in ("GracefulStop", "TryGracefulRestart") and evs[i + 1]["e"] == "signal":
                return True
        return False
    if prop == "C07":
        return ("timer_fired" in names or "loop_exit" in names or "err" in names
                or any(e["e"] == "send" and e["w"] > 1 for e in evs)
                or any(e["e"] == "deq" and e["a"] == "NextEnding" for e in evs))
    if prop == "C09":
        return names.count("spawn") >= 1 and names.count("deq") >= 5
    if prop == "C10":
        pend = {"U": 0, "H": 0, "N": 0}
        q = {"delete_now": "U", "to_wait": "H"}
        multi = False
        for e in evs:
            if e["e"] == "send" and e["n"] == 1:
                pend[q.get(e["a"], "N")] += 2 if e["a"] in ("delete", "delete_now", "restart", "restart_with_signal") else 1
            elif e["e"] == "deq" and e["a"] not in ("ContinueTryGracefulRestart",):
                if sum(1 for v in pend.values() if v > 0) >= 2:
                    multi = True
                for k in ("U", "H", "N"):
                    if pend[k] > 0:
                        pend[k] -= 1
                        break
        return multi
    return True


def sample_of(scen_lines, n=40):
    out = []
    for x in scen_lines[:n]:
        e = json.loads(x)
        out.append({k: v for k, v in e.items() if v not in (0, "", None) or k in ("e", "t")})
    return out


def run(prop, tier, replay=None):
    t0 = time.time()
    rng = random.Random(vlib.seed() * 7919 + hash(prop) % 1000)
    vlib.build_harness()

    # 1. the design: exhaustive model check of JobTask for the property's invariants
    mc = vlib.tlc_check("MC_Job.tla", "MC_Job_%s_%s.cfg" % (prop, tier), "mc_" + prop,
                        workers=12, timeout=3000)
    violations = []
    if mc["violated"]:
        path = vlib.save_replay(prop, "model_" + mc["violated"],
                                dict(kind="model", invariant=mc["violated"], tlc_tail=mc["out"][-6000:]))
        violations.append(("model invariant %s violated" % mc["violated"], path))

    # 2. scripts: regression corpus + enumerated + sampled
    sub_replay = None
    if replay:
        with open(replay) as f:
            payload = json.load(f)
        if payload.get("kind") in ("flag-trace", "jobmt-trace"):
            sub_replay, scripts = payload, []
        elif payload.get("kind") in ("model", "proof", "spec-behaviour"):
            scripts = []                     # the model check / the proof above is the replay
        else:
            scripts = [payload["script"]]
        reps = 16
    else:
        scripts = [json.loads(l) for l in open(os.path.join(vlib.ROOT, "tools", "job_regress.ndjson"))]
        scripts += scripts_for(prop, tier, rng)
        reps = 1
    by_id = {}
    for s in scripts:
        by_id[s["id"]] = s
    # tokio's select! is random per run: ordering-sensitive families are repeated
    if prop == "C10" and not replay:
        reps = 4 if tier == "quick" else 16
    tp = run_driver(scripts, "drv_" + prop, reps=reps)

    # 3. the binding: TLC decides every recorded trace
    if prop == "C09":
        module, cfg = "JobTrace.tla", "JobTrace.cfg"
    else:
        module, cfg = "JobMon.tla", "JobMon_%s.cfg" % prop
    left = []
    acc, rej, stats, total = vlib.validate_traces(module, cfg, tp, "val_" + prop, shards=12, leftover=left)
    if module == "JobTrace.tla":
        # rejected step by step: is it at least a behaviour of JobTask as far as can be seen from outside (the
        # calls on the child, hooks, handlers, functions run in the task, tickets resolving; the trace points
        # inside the task neither required nor believed)?
        rej, explained = vlib.second_opinion("JobTraceObs.tla", "JobTraceObs.cfg", rej, "obs_" + prop, leftover=left)
        acc += len(explained)

    with open(tp) as f:
        scen = vlib.split_scenarios(f.readlines())
    distinct = set()
    for sc in scen:
        if nontrivial(prop, sc):
            sid = json.loads(sc[0])["a"].split("#")[0]
            s = by_id.get(sid)
            distinct.add(vlib.digest([s["steps"], s["kids"]]) if s else sid)

    for r in rej:
        sid = (r["script"] or "").split("#")[0]
        name = "%s_%s" % (sid, vlib.digest(r["event"]))
        path = vlib.save_replay(prop, name, dict(
            kind="trace", property=prop, script=by_id.get(sid), rejected_at_line=r["line"],
            event=r["event"], why=r.get("why") or "the specification cannot explain this event",
            trace=[json.loads(x) for x in r["lines"]]))
        violations.append(("%s: %s at line %d (%s)" % (sid, r.get("why") or "trace not a behaviour of JobTask",
                                                      r["line"], r["event"]["e"]), path))

    extra = {}
    if prop == "C07" and sub_replay and sub_replay["kind"] == "flag-trace":
        import flagcheck
        fviol, extra, fmc, fstats = flagcheck.run(prop, tier, rng, only=sub_replay["script"])
        violations += fviol
    if prop in ("C10", "C04") and sub_replay and sub_replay["kind"] == "jobmt-trace":
        import jobmtcheck
        mviol, mextra, mstats = jobmtcheck.run(prop, tier, rng, only=sub_replay["script"])
        violations += mviol
    if prop == "C07" and not replay:
        # several waiters on one ticket, on real threads: the Flag itself against Flag.tla
        import flagcheck
        fviol, extra, fmc, fstats = flagcheck.run(prop, tier, rng)
        violations += fviol
        for k in ("distinct", "generated"):
            mc[k] += fmc[k]
            stats[k] += fstats[k]
        acc += extra["flag_scenarios_accepted"]
        total += extra["flag_scenarios"]

    if prop == "C09" and not replay:
        # the other direction: behaviours of the specification (TLC -simulate) replayed on the real job task
        import jobreplay
        rviol, rextra = jobreplay.run(prop, tier, rng)
        violations += rviol
        extra.update(rextra)
        acc += rextra["spec_behaviours_agreed"]
        total += rextra["spec_behaviours_replayed"]
    if prop in ("C10", "C04") and not replay:
        # several concurrent senders on a multi-threaded runtime
        import jobmtcheck
        mviol, mextra, mstats = jobmtcheck.run(prop, tier, rng)
        violations += mviol
        extra.update(mextra)
        for k in ("distinct", "generated"):
            stats[k] += mstats[k]
        acc += mextra["concurrent_sender_scenarios_accepted"]
        total += mextra["concurrent_sender_scenarios"]

    samples = [dict(script=by_id.get(json.loads(sc[0])["a"].split("#")[0]), trace=sample_of(sc))
               for sc in scen[len(scen) // 3: len(scen) // 3 + 2]]
    coverage = dict(
        states=mc["distinct"] + stats["distinct"],
        transitions=mc["generated"] + stats["generated"],
        model_states=mc["distinct"], model_transitions=mc["generated"],
        trace_states=stats["distinct"],
        spec_expressions_not_evaluated_on_traces=sorted(stats.get("uncovered") or []),
        traces_validated_against_impl=acc,
        evaluations=total,
        distinct_nontrivial=len(distinct),
        rule=LEVEL_RULE[prop],
        exhaustive=False,
        samples=samples,
        checker_cmd="tlc MC_Job.tla -config MC_Job_%s_%s.cfg ; job_driver ; tlc %s -config %s (per shard)" % (prop, tier, module, cfg),
        model_cfg="spec/mc/MC_Job_%s_%s.cfg" % (prop, tier),
        script_families=sorted({s.get("origin", "?") for s in scripts}),
        repetitions_per_script=reps, **extra
    )
    assumptions = [
        "single-threaded tokio runtime with paused clock: recorded order is the real order, equal timestamps are the same instant",
        "the simulated child (installed through the public spawn hook) stands for a process: exit after a delay, exit some delay after a signal, ignore signals, fail to spawn/kill/signal",
        "TLC 1.8 and the CommunityModules Json/IOUtils modules are trusted",
        "cfg(watchexec_verif) trace points are hints; conformance (C09) checks them against the observable calls",
    ]
    vlib.write_evidence(prop, tier, coverage, time.time() - t0, len(violations), assumptions)
    return violations
