"""C05 end to end: the real command-line program (wx_cli) with a real watcher and a real command that keeps
its own log, under scripted file changes; judged by CliE2EMon.tla."""
import json, os, subprocess, sys
import vlib

FORMS = {
    "do-nothing": [["--on-busy-update", "do-nothing"], ["--on-busy-update=do-nothing"]],
    "queue": [["--on-busy-update", "queue"], ["--on-busy-update=queue"]],
    "restart": [["-r"], ["--restart"], ["--on-busy-update", "restart"]],
    "signal": [["--signal", "USR1"], ["--on-busy-update", "signal", "--stop-signal", "USR1"]],
}


def scripts_for(tier, rng):
    out, k = [], 0

    def add(mode, argv, postpone, run_ms, changes, until, origin):
        nonlocal k
        out.append(dict(id="x%04d" % k, origin=origin, mode=mode, argv=argv, postpone=postpone, run_ms=run_ms,
                        changes=changes, until=until))
        k += 1

    for mode, forms in FORMS.items():
        for argv in forms:
            for postpone in (False, True):
                base = [300] if postpone else []          # with --postpone the first change starts the first run
                t0 = 300 if postpone else 0
                long_run = 0 if mode != "queue" else 700
                # one change while the command runs
                add(mode, argv, postpone, long_run, base + [t0 + 400], t0 + 400 + long_run + 900, "change-while-running")
                # two changes while it runs, far apart
                add(mode, argv, postpone, long_run, base + [t0 + 400, t0 + 400 + max(long_run, 300) + 500],
                    t0 + 400 + 2 * max(long_run, 300) + 1500, "two-changes")
                # a short command: the change comes when nothing runs
                add(mode, argv, postpone, 200, base + [t0 + 800], t0 + 1700, "change-while-idle")
    if tier == "quick":
        keep = [s for s in out if s["origin"] != "two-changes" or s["argv"] == FORMS[s["mode"]][0]]
        out = keep
    return out


def run(prop, tier, rng, only=None):
    """-> (violations, extra, trace-stats)"""
    scripts = [only] if only else scripts_for(tier, rng)
    by_id = {s["id"]: s for s in scripts}
    todo, attempts, final, accepted = list(scripts), 0, {}, set()
    tstats = dict(distinct=0, generated=0)
    while todo and attempts < 3:
        attempts += 1
        d = vlib.workdir("drv_clie2e%d" % attempts)
        sp, tp = os.path.join(d, "scripts.ndjson"), os.path.join(d, "traces.ndjson")
        with open(sp, "w") as f:
            for s in todo:
                f.write(json.dumps(s) + "\n")
        p = subprocess.run([os.path.join(vlib.BIN, "clie2e_driver"), sp, tp, "--threads", "6"],
                           stdout=subprocess.PIPE, stderr=subprocess.STDOUT, text=True, timeout=3600)
        if p.returncode != 0:
            sys.stderr.write(p.stdout[-3000:])
            raise vlib.ToolError("clie2e_driver failed")
        acc, rej, stats, total = vlib.validate_traces("CliE2EMon.tla", "CliE2EMon.cfg", tp, "val_clie2e%d" % attempts, shards=4)
        tstats["distinct"] += stats["distinct"]
        tstats["generated"] += stats["generated"]
        rejected = {r["script"]: r for r in rej}
        for s in todo:
            if s["id"] in rejected:
                final[s["id"]] = rejected[s["id"]]
            else:
                accepted.add(s["id"])
                final.pop(s["id"], None)
        # real time, real watcher, real processes: held against the code only when it fails every time
        todo = [by_id[sid] for sid in rejected]
    violations = []
    for sid, r in final.items():
        why = r.get("why") or "the monitor cannot follow this run"
        path = vlib.save_replay(prop, "clie2e_%s_%s" % (sid, vlib.digest(r["event"])), dict(
            kind="clie2e-trace", property=prop, script=by_id[sid], rejected_at_line=r["line"], event=r["event"], why=why,
            attempts=3, trace=[json.loads(x) for x in r["lines"]]))
        violations.append(("%s (the command-line program end to end, %s %s%s): %s at line %d (%s)" % (
            sid, by_id[sid]["mode"], " ".join(by_id[sid]["argv"]), " --postpone" if by_id[sid]["postpone"] else "",
            why, r["line"], r["event"]["e"]), path))
    extra = dict(end_to_end_scripts=len(scripts), end_to_end_accepted=len(accepted), end_to_end_attempts=attempts)
    return violations, extra, tstats
