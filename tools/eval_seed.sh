#!/bin/sh
# usage: eval_seed.sh <seed-id> <worktree> "<props to check>" "<cargo -p args>" <demo-test-target>
# 1. confirms the seed in its scratch worktree; 2. stores it under /verif/seeded/<id>/;
# 3. applies the patch to /repo, runs the named quick checks, reverts /repo.
id="$1"; wt="$2"; props="$3"; pkgs="$4"; demo="$5"
out=/verif/seeded/$id; mkdir -p "$out"
/verif/tools/confirm_seed.sh "$wt" "$pkgs" "$demo" > "$out/confirm.txt" 2>&1
cp "$wt/SEEDED/patch.diff" "$out/patch.diff"; cp "$wt/SEEDED/demo.rs" "$out/demo.rs" 2>/dev/null; cp "$wt/SEEDED/meta.json" "$out/meta_agent.json" 2>/dev/null
cd /repo && git apply "$out/patch.diff" || { echo "patch does not apply to /repo" > "$out/checks.txt"; exit 2; }
: > "$out/checks.txt"
for p in $props; do
  (cd /verif && VERIF_SCRATCH_REPLAYS=1 ./check "$p" --tier quick > "/verif/.work/seed_${id}_$p.out" 2>&1; rc=$?; echo "$p rc=$rc violations=$(grep -c '^VIOLATION' /verif/.work/seed_${id}_$p.out)" >> "$out/checks.txt"; grep -A1 '^VIOLATION' "/verif/.work/seed_${id}_$p.out" | sed -n 2p | cut -c1-260 >> "$out/checks.txt")
done
cd /repo && git checkout -- . 
cd /verif && git checkout -- evidence 2>/dev/null
cat "$out/checks.txt"
