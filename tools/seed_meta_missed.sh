#!/bin/sh
# usage: seed_meta_missed.sh <seed-id> <confirm-log> <checks-before-file> "<what was added>"
# For a seed the intended check missed at first: checks.txt keeps the first evaluation, the note, then the one after.
id="$1"; d=/verif/seeded/$id
{ echo "-- first evaluation (missed by the intended check):"; cat "$3"; echo "-- $4; evaluated again:"; cat "$d/checks.txt"; } > "$d/checks.tmp" && mv "$d/checks.tmp" "$d/checks.txt"
python3 /verif/tools/seed_meta.py "$id" "$2"
