"""Checks of the action-worker family: C01, C02, C15 (C08 builds on it)."""
import json, os, random, subprocess, sys, time
import vlib, workgen
from jobcheck import sample_of

RULE = {
    "C01": "scripts in which the handler was invoked at least once and at least one event was rejected, errored, urgent or empty; distinct by the whole script",
    "C02": "scripts in which some batch held two or more events or an event arrived within 10 ms of a window end or the throttle changed; distinct by the whole script",
    "C15": "scripts in which the filter errored at least once; distinct by the whole script",
    "C08": "scripts in which at least one job had a process running when the quit was asked; distinct by the whole script",
}


def nontrivial(prop, s):
    evs = s["events"]
    if prop == "C01":
        return len(evs) >= 2 and any(e["verdict"] != "pass" or e["prio"] == 3 or e["empty"] for e in evs)
    if prop == "C02":
        ats = sorted(e["at"] for e in evs)
        close = any(0 <= b - a <= s["throttle"] + 10 for a, b in zip(ats, ats[1:]))
        return close or bool(s.get("throttles"))
    if prop == "C15":
        return any(e["verdict"] == "error" for e in evs)
    if prop == "C08":
        ops = [o["op"] for e in evs for o in e.get("jobops", [])]
        return "start" in ops
    return True


def scripts_for(prop, tier, rng):
    q = tier == "quick"
    if prop == "C01":
        return workgen.flow_scripts(rng, 1400 if q else 14000)
    if prop == "C02":
        return workgen.window_scripts(rng, 1000 if q else 10000)
    if prop == "C15":
        return workgen.error_scripts(rng, 1200 if q else 12000)
    if prop == "C08":
        return workgen.quit_scripts(rng, 600 if q else 6000)
    raise ValueError(prop)


def run_driver(scripts, name):
    d = vlib.workdir(name)
    sp, tp = os.path.join(d, "scripts.ndjson"), os.path.join(d, "traces.ndjson")
    workgen.dump(scripts, sp)
    p = subprocess.run([os.path.join(vlib.BIN, "worker_driver"), sp, tp, "--threads", "12"],
                       stdout=subprocess.PIPE, stderr=subprocess.STDOUT, text=True, timeout=3600)
    if p.returncode != 0:
        sys.stderr.write(p.stdout[-3000:])
        raise vlib.ToolError("worker_driver failed")
    return tp


def run(prop, tier, replay=None):
    t0 = time.time()
    rng = random.Random(vlib.seed() * 104729 + int(prop[1:]))
    vlib.build_harness()
    if prop == "C08":
        mc_module, mc_cfg = "MC_JobQuit.tla", "MC_JobQuit_%s.cfg" % tier
        tr_module, cfg = "QuitMon.tla", "QuitMon.cfg"
    else:
        mc_module, mc_cfg = "MC_Worker.tla", "MC_Worker_%s_%s.cfg" % (prop, tier)
        tr_module, cfg = "WorkerTrace.tla", "WorkerTrace_%s.cfg" % prop
    mc = vlib.tlc_check(mc_module, mc_cfg, "mc_" + prop, workers=12, timeout=3000)
    violations = []
    if mc["violated"]:
        path = vlib.save_replay(prop, "model_" + mc["violated"], dict(kind="model", invariant=mc["violated"], tlc_tail=mc["out"][-6000:]))
        violations.append(("model invariant %s violated" % mc["violated"], path))
    replay_proc, replay_fs = None, []
    if replay:
        with open(replay) as f:
            rp = json.load(f)
        if rp.get("kind") == "proc-trace":
            replay_proc, scripts = rp["script"], []
        elif rp.get("kind") == "fsreal-trace":
            import fsrealcheck
            fviol, _, _ = fsrealcheck.run(prop, tier, rng, only=rp["script"])
            replay_fs = fviol
            scripts = []
        elif rp.get("kind") in ("model", "spec-behaviour"):
            scripts = []
        else:
            scripts = [rp["script"]]
    else:
        scripts = scripts_for(prop, tier, rng)
        reg = os.path.join(os.path.dirname(os.path.abspath(__file__)), "work_regress_%s.ndjson" % prop)
        if os.path.exists(reg):
            with open(reg) as f:
                scripts += [json.loads(ln) for ln in f if ln.strip()]
    by_id = {s["id"]: s for s in scripts}
    violations += replay_fs
    tp = run_driver(scripts, "drv_" + prop)
    left = []
    acc, rej, stats, total = vlib.validate_traces(tr_module, cfg, tp, "val_" + prop, shards=12, leftover=left)
    explained = []
    if tr_module == "WorkerTrace.tla":
        # rejected step by step: is it at least a behaviour of ActionWorker as far as can be seen from outside
        # (filter, handler and error-handler calls; the trace points inside the loop neither required nor believed)?
        rej, explained = vlib.second_opinion("WorkerTraceObs.tla", cfg.replace("WorkerTrace_", "WorkerTraceObs_"), rej, "obs_" + prop, leftover=left)
        acc += len(explained)
    for r in rej:
        sid = r["script"] or ""
        path = vlib.save_replay(prop, "%s_%s" % (sid, vlib.digest(r["event"])), dict(
            kind="trace", property=prop, script=by_id.get(sid), rejected_at_line=r["line"], event=r["event"],
            why=r.get("why") or "the specification (ActionWorker, %s) cannot explain this event" % cfg,
            trace=[json.loads(x) for x in r["lines"]]))
        violations.append(("%s: %s at line %d (%s %s)"
                           % (sid, r.get("why") or "trace is not a behaviour of ActionWorker", r["line"],
                              r["event"]["e"], r["event"].get("id")), path))
    extra = {}
    if prop == "C08" and not (replay and not replay_proc):
        # the clause about processes (process groups, grandchildren, commands ignoring the signal):
        # a real Watchexec with real commands, validated against ProcQuit.tla
        import proccheck
        pviol, extra, pmc, pstats = proccheck.run(prop, tier, rng, replay_proc)
        violations += pviol
        stats["distinct"] += pstats["distinct"]
        stats["generated"] += pstats["generated"]
        mc["distinct"] += pmc["distinct"]
        mc["generated"] += pmc["generated"]
        acc += extra["real_process_accepted"]
        total += extra["real_process_scripts"]
    if prop == "C02" and not replay:
        # the other direction: behaviours of the specification (TLC -simulate) replayed on a real Watchexec
        import workreplay
        rviol, extra = workreplay.run(prop, tier, rng)
        violations += rviol
        acc += extra["spec_behaviours_agreed"]
        total += extra["spec_behaviours_replayed"]
    if prop == "C01" and not replay:
        # the property's parenthesis "a filesystem change under a watched path": real inotify / poll
        import fsrealcheck
        fviol, extra, fstats = fsrealcheck.run(prop, tier, rng)
        violations += fviol
        stats["distinct"] += fstats["distinct"]
        stats["generated"] += fstats["generated"]
        acc += extra["real_fs_accepted"]
        total += extra["real_fs_scripts"]
    if prop == "C15" and not replay:
        # the clause about errors raised from the watcher's own callback (event-queue overflow, unreadable
        # events): the real fs worker with a fake watcher whose callback fires bursts against a small queue
        import fscheck
        cb = fscheck.callback_scripts() + fscheck.failure_scripts()
        cb_by = {s["id"]: s for s in cb}
        _, cacc, crej, cstats, ctotal = fscheck.run_scripts(cb, "C15cb")
        for r in crej:
            sid = r["script"] or ""
            path = vlib.save_replay(prop, "%s_%s" % (sid, vlib.digest(r["event"])), dict(
                kind="trace", property=prop, script=cb_by.get(sid), rejected_at_line=r["line"], event=r["event"],
                why="the errors of the fs worker (failing watch / unwatch calls, the watcher callback's overflow and errors) are not those of FsWorker",
                trace=[json.loads(x) for x in r["lines"]]))
            violations.append(("%s: fs worker errors (registration failures / watcher-callback burst) differ from the specification at line %d (%s)"
                               % (sid, r["line"], r["event"]["e"]), path))
        acc += cacc
        total += ctotal
        stats["distinct"] += cstats["distinct"]
        stats["generated"] += cstats["generated"]
        extra = dict(callback_burst_scripts=ctotal, callback_burst_accepted=cacc)
    with open(tp) as f:
        scen = vlib.split_scenarios(f.readlines())
    distinct = {vlib.digest([s["events"], s["cap"], s["ecap"], s["throttle"], s.get("throttles"), s.get("jobs")])
                for s in scripts if nontrivial(prop, s)}
    samples = [dict(script=by_id.get(json.loads(sc[0])["a"]), trace=sample_of(sc))
               for sc in scen[len(scen) // 3: len(scen) // 3 + 2]]
    coverage = dict(
        states=mc["distinct"] + stats["distinct"], transitions=mc["generated"] + stats["generated"],
        model_states=mc["distinct"], model_transitions=mc["generated"], trace_states=stats["distinct"],
        spec_expressions_not_evaluated_on_traces=sorted(stats.get("uncovered") or []),
        traces_validated_against_impl=acc, evaluations=total, distinct_nontrivial=len(distinct),
        rule=RULE[prop], exhaustive=False, samples=samples,
        checker_cmd="tlc %s -config %s ; worker_driver ; tlc %s -config %s (per shard)%s" % (mc_module, mc_cfg, tr_module, cfg, " ; a rejected scenario: tlc WorkerTraceObs.tla" if tr_module == "WorkerTrace.tla" else ""),
        script_families=sorted({s.get("origin", "?") for s in scripts}), **extra)
    assumptions = [
        "single-threaded tokio runtime with paused clock; with --cfg watchexec_verif the worker measures its window on tokio's clock (the same arithmetic as std's Instant)",
        "events are synthetic (send_event) with the filter verdict scripted per event; what the OS watchers report is not part of this check",
        "TLC and the CommunityModules are trusted",
    ]
    vlib.write_evidence(prop, tier, coverage, time.time() - t0, len(violations), assumptions)
    return violations
