#!/bin/sh
# usage: try_mutation_scratch.sh <name> <patch-file> "<props>"
# Applies a hand-written mutation in a fresh scratch worktree of /repo (never /repo itself), runs the quick
# checks against it through a scratch copy of the harness, prints the verdicts, removes everything.
name="$1"; patch="$2"; props="$3"
wt=/tmp/mut_$name; h=/tmp/harness_mut_$name
git -C /repo worktree remove --force "$wt" 2>/dev/null; rm -rf "$wt" "$h"
git -C /repo worktree add --detach "$wt" >/dev/null 2>&1 || exit 2
git -C "$wt" apply "$patch" || { echo "patch does not apply"; git -C /repo worktree remove --force "$wt"; exit 2; }
mkdir -p "$h"; (cd /verif/harness && tar cf - --exclude target .) | (cd "$h" && tar xf -)
sed -i "s#/repo/crates#$wt/crates#g" "$h/Cargo.toml"
for p in $props; do
  (cd /verif && VERIF_HARNESS_DIR="$h" VERIF_WORK_DIR="/verif/.work/w_mut_$name" VERIF_SCRATCH_REPLAYS=1 ./check "$p" --tier quick > "/verif/.work/mut_${name}_$p.out" 2>&1; rc=$?
   echo "$name $p rc=$rc violations=$(grep -c '^VIOLATION' /verif/.work/mut_${name}_$p.out)"; grep -A1 '^VIOLATION' "/verif/.work/mut_${name}_$p.out" | sed -n 2p | cut -c1-220)
done
rm -rf "$h" "/verif/.work/w_mut_$name"; git -C /repo worktree remove --force "$wt"
