"""C10 / C04 with several concurrent senders on a multi-threaded runtime: jobmt_driver + JobMtMon.tla."""
import json, os, subprocess, sys
import vlib

OPS = ["start", "stop", "signal", "run", "run", "try_restart", "to_wait", "to_wait", "to_wait"]


def kid(self_at=None, sig_delay=None):
    return dict(self_at=self_at, sig_delay=sig_delay, fail=False, kill_fail=False, sig_fail=False, code=0)


def scripts_for(tier, rng):
    n = 400 if tier == "quick" else 5000
    out = []
    for i in range(n):
        ns = rng.choice([2, 3, 4])
        senders = [[rng.choice(OPS) for _ in range(rng.randrange(3, 11))] for _ in range(ns)]
        out.append(dict(id="c%05d" % i, seed=rng.randrange(1 << 40),
                        kids=[rng.choice([kid(), kid(self_at=2), kid(sig_delay=1)]) for _ in range(8)], senders=senders))
    return out


def run(prop, tier, rng, only=None):
    """-> (violations, extra, trace-stats)"""
    scripts = [only] * 100 if only else scripts_for(tier, rng)      # a replay repeats the scenario: threads decide
    by_id = {s["id"]: s for s in scripts}
    d = vlib.workdir("drv_jobmt")
    sp, tp = os.path.join(d, "scripts.ndjson"), os.path.join(d, "traces.ndjson")
    with open(sp, "w") as f:
        for s in scripts:
            f.write(json.dumps(s) + "\n")
    p = subprocess.run([os.path.join(vlib.BIN, "jobmt_driver"), sp, tp], stdout=subprocess.PIPE, stderr=subprocess.STDOUT,
                       text=True, timeout=3600)
    if p.returncode != 0:
        sys.stderr.write(p.stdout[-3000:])
        raise vlib.ToolError("jobmt_driver failed")
    acc, rej, stats, total = vlib.validate_traces("JobMtMon.tla", "JobMtMon_%s.cfg" % prop, tp, "val_jobmt", shards=6)
    violations = []
    for r in rej:
        sid = r["script"] or ""
        why = r.get("why") or "the monitor cannot follow this run"
        path = vlib.save_replay(prop, "jobmt_%s_%s" % (sid, vlib.digest(r["event"])), dict(
            kind="jobmt-trace", property=prop, script=by_id.get(sid), rejected_at_line=r["line"], event=r["event"], why=why,
            trace=[json.loads(x) for x in r["lines"]]))
        violations.append(("%s (concurrent senders, multi-threaded runtime): %s at line %d (%s)" % (sid, why, r["line"], r["event"]["e"]), path))
    with open(tp) as f:
        text = f.read()
    extra = dict(concurrent_sender_scenarios=total, concurrent_sender_scenarios_accepted=acc,
                 concurrent_sender_controls=text.count('"e":"send_begin"'))
    return violations, extra, stats
