#!/usr/bin/env python3
"""usage: seed_prompt.py <prop> <suffix> <cargo-package> [hint]
Creates a scratch worktree /tmp/wt_<prop><suffix> of /repo and prints the prompt for a seeding sub-agent.
The prompt contains the property's text and file anchors only - nothing from /verif."""
import json, subprocess, sys
prop, suffix, pkg = sys.argv[1:4]
hint = sys.argv[4] if len(sys.argv) > 4 else ""
P = {json.loads(l)["id"]: json.loads(l) for l in open("/verif/properties.jsonl")}
p = P[prop]
wt = "/tmp/wt_%s%s" % (prop, suffix)
import os
if not os.path.isdir(wt):
    subprocess.run(["git", "-C", "/repo", "worktree", "add", "--detach", wt], check=True, stdout=subprocess.DEVNULL, stderr=subprocess.DEVNULL)
demo_dir = {"watchexec": "crates/lib", "watchexec-supervisor": "crates/supervisor", "ignore-files": "crates/ignore-files",
            "project-origins": "crates/project-origins", "watchexec-cli": "crates/cli", "watchexec-filterer-ignore": "crates/filterer/ignore",
            "watchexec-filterer-globset": "crates/filterer/globset", "watchexec-events": "crates/events", "watchexec-signals": "crates/signals"}[pkg]
print(f"""You are helping test a verification framework by seeding a realistic bug. Work ONLY inside the git worktree {wt} (a checkout of the watchexec Rust workspace: a CLI and library that watches filesystem paths, filters events via ignore files and globs, and supervises and restarts commands). Do NOT read or write anything under /repo or /verif. There is no network; use `cargo ... --offline` only. Build/test only what you touch (`cargo test -p {pkg} --offline`).

PROPERTY (must hold for the code as it is now):
"{p['title']}. {p['statement']}"
Quantified over: {p['quantifier']['text']}. Code: {', '.join(p['anchors']['files'])}.

YOUR TASK: make ONE small, realistic source change (the kind of regression a refactor or an optimisation could introduce) in {wt} that BREAKS this property, while (a) the workspace still compiles (`cargo check --workspace --offline`) and (b) the existing tests (`cargo test -p {pkg} --offline`) still pass unedited. The bug must need something specific to manifest (a particular input shape, ordering, timing or configuration), not something the simplest use exposes. {hint} IMPORTANT: do NOT simply revert one of the recent `fix:` commits visible in `git log`. Do not touch code under `#[cfg(watchexec_verif)]` or the `verif` modules, and do not edit existing tests.

Then write a DEMONSTRATION: a standalone Rust integration test at {wt}/{demo_dir}/tests/seeded_demo.rs using only the public API (or, for the CLI, a bash script {wt}/SEEDED/demo.sh driving the built binary) that FAILS with your change and PASSES without it; under ~15 s, not flaky. Verify both directions yourself.

Use `git apply -R SEEDED/patch.diff` / `git apply` (never `git stash`: the stash is shared by all worktrees of this repository) to test the unpatched direction.

DELIVERABLES (write these files, then report their paths and a 5-line summary):
 - {wt}/SEEDED/patch.diff  : `git diff` of ONLY the source change (not the demo),
 - {wt}/SEEDED/demo.rs (or demo.sh) : copy of the demonstration file,
 - {wt}/SEEDED/meta.json   : {{"property":"{prop}","summary":"...","needs":"...","files":[...],"commands_run":["..."],"demo_fails_with_patch":true,"demo_passes_without_patch":true,"existing_tests_pass_with_patch":true}}
Leave the worktree with the patch APPLIED and the demo file present. Be concise.""")
