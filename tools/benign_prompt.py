#!/usr/bin/env python3
"""usage: benign_prompt.py <name> <cargo-packages> <target description>
Creates a scratch worktree /tmp/wt_<name> of /repo and prints the task for a sub-agent that writes a
behaviour-preserving refactor (to test that the checks stay quiet on code where the properties hold)."""
import subprocess, sys, os
name, pkgs, target = sys.argv[1:4]
wt = "/tmp/wt_%s" % name
if not os.path.isdir(wt):
    subprocess.run(["git", "-C", "/repo", "worktree", "add", "--detach", wt], check=True, stdout=subprocess.DEVNULL, stderr=subprocess.DEVNULL)
print(f"""You are helping test a verification framework: it must stay quiet on code whose behaviour is unchanged. Work ONLY inside the git worktree {wt} (a checkout of the watchexec Rust workspace: a CLI and library that watches filesystem paths, filters events via ignore files and globs, and supervises and restarts commands). Do NOT read or write anything under /repo or /verif. There is no network; use `cargo ... --offline` only.

YOUR TASK: make ONE realistic, BEHAVIOUR-PRESERVING refactor of {target} - the kind of change a maintainer makes without intending any functional difference: restructure a loop or a match, extract or inline a helper function, replace a data structure by an equivalent one, hoist or sink a computation, reorder statements that are independent of each other, add an early `continue` / `return` for a case in which the rest would do nothing, change how a value is passed around. It must be more than cosmetic (not just renames, comments or formatting), between roughly 10 and 60 changed lines, and it must NOT change anything a user of the public API or of the command-line program could observe: the same calls on child processes / watchers / handlers / filters in the same order with the same arguments, the same events and errors delivered, the same timing relative to timers (no added sleeps or timeouts; do not turn a sequential await into a spawned task or vice versa), the same results from every public function.

Lines under `#[cfg(watchexec_verif)]` are trace points (think of them as log statements): leave them in the code, attached to the statement they annotate (if you move that statement, move the trace point with it; if a case now returns early before reaching a trace point that only reported "nothing to do", that is fine). Do not touch the `verif` modules and do not edit existing tests.

Check: `cargo check --workspace --offline` compiles without new warnings-as-errors, and `cargo test {pkgs} --offline` passes unedited.

DELIVERABLES (write these files, then report their paths and a 5-line summary):
 - {wt}/BENIGN/patch.diff : `git diff` of the source change,
 - {wt}/BENIGN/why.txt    : a few lines: what was restructured, and the argument why no observable behaviour changes (mention anything you are less than sure about).
Leave the worktree with the patch APPLIED. Be concise.""")
