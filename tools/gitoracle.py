#!/usr/bin/env python3
"""Second oracle for IgnoreScope.tla (C03): the specification's verdicts against `git check-ignore`.

usage: gitoracle.py <cases.ndjson> [max-cases]
For every case without a global ignore file a throw-away git repository is built with the case's
.gitignore files and the probe paths, and `git check-ignore --no-index` is asked about every probe the
specification has an opinion on (inside the origin).  Prints the disagreements.  This checks the
SPECIFICATION (is its reading of "git-style evaluation" git's?), not watchexec."""
import json, os, subprocess, sys, tempfile, shutil
from concurrent.futures import ThreadPoolExecutor

DIRS = ["a", "test", "tests", "test/sub", "tests/sub"]


def one(case):
    if any(f["loc"] == ["GLOBAL"] for f in case["files"]):
        return None
    d = tempfile.mkdtemp(prefix="gitoracle")
    try:
        subprocess.run(["git", "init", "-q", d], check=True, stdout=subprocess.DEVNULL, stderr=subprocess.DEVNULL)
        for x in DIRS:
            os.makedirs(os.path.join(d, x), exist_ok=True)
        by_loc = {}
        for f in case["files"]:
            by_loc.setdefault("/".join(f["loc"]), []).extend(f["lines"])
        for loc, lines in by_loc.items():
            with open(os.path.join(d, loc, ".gitignore"), "w") as fh:
                fh.write("\n".join(lines) + "\n")
        probes = [e for e in case["expect"] if e["v"] in ("kept", "ignored") and e["path"][0] != "OUT"]
        for e in probes:
            p = os.path.join(d, *e["path"])
            if e["dir"]:
                os.makedirs(p, exist_ok=True)
            else:
                os.makedirs(os.path.dirname(p), exist_ok=True)
                open(p, "w").close()
        bad = []
        for e in probes:
            rel = "/".join(e["path"]) + ("/" if e["dir"] else "")
            r = subprocess.run(["git", "-C", d, "check-ignore", "-q", "--no-index", rel], stdout=subprocess.DEVNULL, stderr=subprocess.DEVNULL)
            git = "ignored" if r.returncode == 0 else "kept"
            if git != e["v"]:
                bad.append((rel, e["v"], git))
        return (len(probes), bad, by_loc)
    finally:
        shutil.rmtree(d, ignore_errors=True)


def main():
    cases = [json.loads(l) for l in open(sys.argv[1])]
    if len(sys.argv) > 2:
        cases = cases[: int(sys.argv[2])]
    n = probes = 0
    diffs = []
    with ThreadPoolExecutor(max_workers=12) as ex:
        for r in ex.map(one, cases):
            if r is None:
                continue
            n += 1
            probes += r[0]
            for b in r[1]:
                diffs.append((b, r[2]))
    print("cases compared with git: %d, probes: %d, disagreements: %d" % (n, probes, len(diffs)))
    for (rel, spec, git), files in diffs[:25]:
        print("  %s: specification says %s, git says %s; files %s" % (rel, spec, git, files))
    return 1 if diffs else 0


if __name__ == "__main__":
    sys.exit(main())
