#!/usr/bin/env python3
"""Regenerates MANIFEST.json from the table below (kept valid at all times)."""
import json, os, subprocess
ROOT = os.path.dirname(os.path.dirname(os.path.abspath(__file__)))
props = [json.loads(l) for l in open(os.path.join(ROOT, "properties.jsonl"))]

JOBNOTE = ("Trusted: TLC 1.8 + CommunityModules; tokio's paused clock (virtual time is exact, order of the "
           "single-threaded run is the recorded order); the simulated child installed through the public spawn "
           "hook stands for a process. Model bounds are those of the named MC cfg; beyond them scripts are sampled.")

CHECKS = {
 "C04": dict(engine="job", technique="TLC model checking of JobTask.tla + TLC trace monitor (JobMon.tla, MonC04) over traces of the real supervisor",
   text="Exhaustive TLC check of AtMostOneLive on the implementation-shaped JobTask spec (all control sequences up to the bound, every child class, spawn/kill/signal faults); every recorded execution of the real job task under enumerated and sampled scripts is judged by the TLA+ monitor MonC04 (a spawn while an earlier child is un-reaped).",
   ref="4.1, 6 C04"),
 "C06": dict(engine="job", technique="TLC model checking of JobTask.tla + TLC trace monitor (MonC06) with exact virtual-time deadlines",
   text="TLC checks KillAtExpiry / ReplacementOnce / NoStaleRestart on JobTask over grace x child-reaction grids; the graceful grid (3 controls x 3 graces x 10 child reactions x 10 queued-behind controls x 4 gaps) is replayed against the real code in virtual time and judged by MonC06: signal first and correct, no kill before the deadline, kill exactly at it, normal controls held back, replacement once and only after the old process ended.",
   ref="4.1, 6 C06"),
 "C07": dict(engine="job", technique="TLC model checking of JobTask.tla (NoDroppedFlag, ResolvedAtRest, NoPanic) + TLC trace monitor (MonC07)",
   text="TLC proves on the model that no control's flag is ever dropped un-raised and that at rest only wait-for-end tickets of a never-exiting child are pending; the real code is run with 1-3 waiters per ticket, clones, spawn/kill/signal failures and delete / delete-now / last-handle-drop at any position, and MonC07 checks each control resolves its ticket within its own step (graceful: in the instant the process ends or the grace expires), every waiter is woken in that instant, and everything resolves when the job ends.",
   ref="4.1, 4.2, 6 C07"),
 "C09": dict(engine="job", technique="TLC trace validation: recorded traces of the real supervisor must be behaviours of JobTask.tla (JobTrace.tla)",
   text="Full conformance: each trace (child-handle calls, hook and run() snapshots of current/previous state, flag raises, ticket completions, timestamps) must be explained event by event by JobTask, which is the documented state machine; TLC also model-checks all invariants of the family on it.",
   ref="4.1, 5, 6 C09"),
 "C10": dict(engine="job", technique="TLC model checking of JobTask.tla (PriorityOrder) + TLC trace monitor (MonC10) over repeated runs",
   text="TLC checks that no control is taken from a lower-priority queue while a higher one is non-empty, for every queue content at the time the task looks; the monitor replays the queue discipline on recorded dequeue events (FIFO per priority, urgent > high > normal, each sent control executed exactly once); every script is repeated because tokio's select! is random per run.",
   ref="4.1, 6 C10"),
 "C01": dict(engine="worker", technique="TLC model checking of ActionWorker.tla (Conservation, NoEmptyBatch) + TLC trace validation of real Watchexec runs against it (untimed data-flow conformance)",
   text="ActionWorker.tla models the bounded priority event queue (a bag: no order among equal priorities), the filter, the debounce loop, the handler and the error channel step by step; TLC checks that every accepted event is in exactly one of queue / current set / exactly one delivered batch, that rejected and erroring events are in none, and that no batch is empty, for all streams up to the bound; recorded executions of a real Watchexec (synthetic events with scripted verdicts, priorities, empty events, several producers, queue capacities 1..4096, sync and async handlers of several durations) must be behaviours of the spec with the cut of a batch left open (WorkerTrace, Timed = FALSE).",
   ref="4.3, 6 C01", note="Trusted: TLC; tokio's paused clock. Events are synthetic (send_event): what inotify/poll report for a filesystem operation, the signal and the keyboard sources are not exercised by this check."),
 "C02": dict(engine="worker", technique="TLC model checking of ActionWorker.tla (NotBeforeWindow, InWindow, UrgentFlushes, NoStarvation) + timed TLC trace validation in virtual time",
   text="TLC checks on ActionWorker that a batch without urgent events is never delivered before the smallest throttle read in its cycle has elapsed since its first event, that windows do not overlap, that an urgent event flushes at the instant it is received and is never filtered, and that an armed deadline is never later than window start + throttle (rejected events cannot postpone it); every recorded execution must follow the spec's window arithmetic exactly (WorkerTrace, Timed = TRUE: time may only advance when nothing is enabled and never past a deadline), for throttles 0/30/50 ms, arrivals on a grid around the window end, streams of rejected and accepted events, throttle changes from outside and from the handler.",
   ref="4.3, 6 C02", note="Trusted: TLC; tokio's paused clock; with --cfg watchexec_verif the worker's window is measured with tokio::time::Instant instead of std::time::Instant (same arithmetic, controllable clock)."),
 "C15": dict(engine="worker", technique="TLC model checking of ActionWorker.tla (ErrorAtMostOnce, ErrorReported, CriticalEndsMain) + TLC trace validation with error-handler calls judged",
   text="TLC checks that each filter error reaches the error hook exactly once, only errors do, the worker goes on, and the main task ends exactly when the handler elevates or raises a critical error; real runs with filter errors among ordinary events, error bursts larger than the error queue (capacity 1, 2, 64) and error handlers that ignore / elevate / raise critical must be behaviours of the spec with every error-handler call judged (WorkerTrace, CheckErrors = TRUE), and a later ordinary event must still be delivered.",
   ref="4.5, 6 C15", note="Trusted: TLC; tokio's paused clock. Covered here: errors raised while filtering. Watch/unwatch failures are covered by C13's machinery; watcher-callback errors (queue overflow) are not injected by this check."),
 "C08": dict(engine="worker", technique="TLC model checking of JobTask.tla under a quit (MC_JobQuit: QuitBounded, QuitClean, QuitEnds) + TLC trace monitor (QuitMon.tla) over real Watchexec runs with supervised jobs",
   text="MC_JobQuit adds the graceful quit of the action worker (stop_with_signal + delete, back to back) to the JobTask model and TLC checks, for every job state reachable by two or three earlier controls (never started, running, finished, armed stop or restart timer, queued controls, deleted, handles dropped), that the job task has ended no later than the remainder of the armed timer + the graces of queued graceful controls + the quit's own grace, with nothing left running; real Watchexec instances whose handler creates 1-3 jobs in ten states (simulated children that ignore / obey the signal / exit by themselves) and then quits in either manner are recorded in virtual time, and QuitMon requires the quit to be performed in the manner asked, the main task to end in the same instant (abort) or within the bound (graceful), and every spawned child to have been reaped or dropped.",
   ref="4.5, 6 C08", note="Trusted: TLC; tokio's paused clock; the simulated child (a dropped child counts as killed: kill-on-drop and process-group semantics of process-wrap and of the kernel are not re-verified here). The CLI signal path (interrupt/terminate leading to this shutdown) is exercised by C05's driver, not here."),
 "C13": dict(engine="fs", technique="TLC model checking of FsWorker.tla (ConvergedWhenIdle, BeliefMatches, NothingLost) + TLC trace validation of the real fs worker against a recording notify watcher",
   text="FsWorker.tla models the worker loop step by step (wait on the change signal, read the path set, read the kind and recreate the watcher, diff, one watch/unwatch call at a time) with the environment free to change the path set, the kind or anything else between any two steps; TLC checks that whenever the worker is waiting with nothing unseen the watcher has the configured kind and exactly the configured paths, that an empty set releases it and that no change is lost; the real worker runs against a fake notify::Watcher (installed through the cfg(watchexec_verif) factory) that records every call, fails on request and applies scripted configuration changes inside its own create/watch/unwatch calls; every run must be a behaviour of the spec, the worker must be quiet only when nothing is pending, each failed call must produce exactly one runtime error, and at the end the fake's registered set and kind must equal the configuration.",
   ref="4.4, 6 C13", note="Trusted: TLC; the fake watcher stands for notify (what inotify would report is not judged). Two recursion modes of one path combined with a failing unwatch of it are outside the modelled universe. Changes from inside action/error handlers are the same Config calls as the ones scripted here; the handler itself is not in the loop of this driver."),
 "C03": dict(engine="pure", technique="TLA+ reference semantics (IgnoreScope.tla) with scoping laws checked by TLC; enumerated cases replayed on real trees through IgnoreFilter / IgnoreFilterer",
   text="IgnoreScope.tla defines git-style evaluation over a tree with prefix-related sibling directories (test/tests, origin/originx): nearest directory first, last matching line wins, path before parents, then globals; TLC checks Scoping, NegationLocal and OrderIrrelevant on it and enumerates ignore-file sets (all single files, all pairs of one-line files, seeded samples of 2-3 files) with the expected verdict of 20 probes each; the real filter is built five ways (new, new again, new with a permuted list, new+add_file, empty+add_file) and must give the expected verdict through check_event and check_dir every time.",
   ref="6 C03", note="Trusted: TLC; the glob semantics of the reference cover the 14 patterns of the table. Skipped as unspecified: a directory vs an ignore file inside it, re-inclusion below an excluded parent, anchored global patterns seen from outside the origin."),
 "C12": dict(engine="pure", technique="TLA+ decision spec (CliIgnoreFlags.tla) enumerated by TLC; all 448 cases replayed through the CLI's argv parser and WatchexecFilterer",
   text="CliIgnoreFlags.tla gives each of the six flags its documented meaning (the set of ignore sources it removes; shorthands expanded by a Normalise step), TLC checks RemovesExactly / Monotone / ShorthandMeaning and enumerates all 64 flag sets x 7 explicit options with the expected verdict of nine probe events; every case is run as a real command line (argv -> Args::parse -> normalise -> WatchexecFilterer::new -> check_event) against a project with a .gitignore, a .ignore, a global git ignore, a global watchexec ignore and a file hit by the built-in defaults. Complete enumeration in both tiers.",
   ref="6 C12", note="Trusted: TLC; the help text of each flag is the reference. HOME/XDG_CONFIG_HOME are faked once per process; argv goes through the cfg(watchexec_verif) verif module of the CLI library."),
 "C16": dict(engine="pure", technique="TLA+ decision spec (EventJson.tla: Doc / Decode tables, RoundTrip and NeverAnotherKind checked by TLC); every shape and every field subset replayed through serde",
   text="EventJson.tla gives the documented JSON object of every tag shape (all 41 filesystem kind names, file types, sources, first-class and custom signals, the seven completion dispositions with the fields each carries) and the decoder as a decision table; TLC checks Decode(Doc(t)) = t for every shape, that a tag object of a known kind never decodes to another kind, and enumerates 77 shapes plus 19456 tag objects (every known kind x every subset of the ten optional fields, with all values of the fields that kind looks at); the real serde implementation must produce exactly the documented object for 8 concretisations per shape (paths with spaces, quotes, newlines and non-ASCII text, u32 pid bounds, i32/i64 code bounds, custom signal numbers), round-trip it inside events of 0-4 tags with metadata, and decode every malformed object to the tag the table says.",
   ref="6 C16", note="Trusted: TLC, serde_json. The spec is a table; the strength is exhaustiveness over it. A crash of the code under test (e.g. an unchecked NonZero) is pinned on the case that caused it and reported as a violation."),
 "C17": dict(engine="pure", technique="TLA+ reference semantics (PathSummary.tla) with JoinBack / CommonIsAbove / Silent checked by TLC; enumerated batches replayed through summarise_events_to_env and the CLI emit helpers",
   text="PathSummary.tla defines the environment summary declaratively (common path = longest common prefix of the trunks, each variable = the set of suffixes of the paths of events carrying a kind of its class, WRITTEN also from close-after-write) and the line format as a sequence; TLC checks that joining the common path with any entry gives back a path of an event of that kind, that the common path is above every path and that events without path or kind contribute nothing, then enumerates every single event over a pool of 8 paths x 0-2 kinds and seeded samples of 2-3 events; the real library function, the CLI's emits_to_environment and events_to_simple_format must give exactly these sets (byte-sorted and unique - checked on the real string), common path and lines.",
   ref="6 C17", note="Trusted: TLC. Paths are abstract component sequences (the functions do not touch the filesystem); names containing ':' are excluded; reading the variables from a real child's environment is not part of the quick tier."),
 "C19": dict(engine="pure", technique="TLA+ table spec (Signals.tla) enumerated by TLC; every row replayed through Signal::from_str / Display / to_nix and ProcessEnd::from(ExitStatus)",
   text="Signals.tla holds the platform signal table, the first-class signals, the three spellings, the Windows control names with their precedence (TLC checks that STOP is the only clash) and the decoding of wait statuses; all 696 rows (every signal x spelling x letter case, every control name, display round trips of first-class and custom signals, exit codes 0-255, terminating signals with and without the core bit) are run through the real conversions and compared by OS signal number. Complete enumeration in both tiers; the spec is a table, the strength is its exhaustiveness.",
   ref="6 C19", note="Trusted: TLC; Linux numbering; nix's list of signals. The --map-signal option parser is not covered."),
 "C20": dict(engine="pure", technique="TLA+ decision spec (Origins.tla) checked and enumerated by TLC; every case replayed on real directory trees",
   text="Origins.tla holds the documented marker table, the declarative IsOrigin/TypesOf and the VCS/software-suite partition; TLC checks that the ancestor walk equals the declarative definition and that every reported type lies in exactly one category, and enumerates every marker with the right and the wrong node type plus all chains up to the bound; each enumerated case is materialised as a real directory chain and origins()/types()/is_vcs()/is_soft() must answer as the spec does.",
   ref="6 C20", note="Trusted: TLC; the marker table and classification in Origins.tla (transcribed from the crate documentation) are the reference. Ancestors above the scratch root are outside the universe."),
}

def main():
    hooks_commits = subprocess.run(["git", "-C", "/repo", "log", "--format=%h %s"], capture_output=True, text=True).stdout.splitlines()
    src = [l.split()[0] for l in hooks_commits if "verif hooks" in l]
    checks = []
    for p in props:
        c = CHECKS.get(p["id"])
        if not c:
            continue
        checks.append(dict(
            property_id=p["id"],
            quick_cmd="./check %s --tier quick" % p["id"],
            thorough_cmd="./check %s --tier thorough" % p["id"],
            evidence_file="/verif/evidence/%s.json" % p["id"],
            replay_cmd_template="./check %s --replay {path}" % p["id"],
            engine=c["engine"],
            level_claimed=dict(category="model_checking", text=c["text"], design_ref=c["ref"]),
            level_note=c.get("note", JOBNOTE),
            technique=c["technique"]))
    na = [dict(property_id=p["id"], reason="pending: check not built yet (its spec, harness and evidence are still to come in this round)")
          for p in props if p["id"] not in CHECKS]
    m = dict(version=1, setup_cmd="./setup.sh",
             hooks=dict(guard="watchexec_verif",
                        enable="rustflags --cfg watchexec_verif in /verif/harness/.cargo/config.toml; the harness crate path-depends on /repo/crates/*",
                        baseline_off_cmd="cd /repo && (cargo nextest run --workspace --no-fail-fast --test-threads 8 --offline || cargo test --workspace --no-fail-fast --offline)",
                        source_commits=src, add_only=True),
             engines=[dict(name="job", path="tools/jobcheck.py", serves_properties=["C04", "C06", "C07", "C09", "C10"],
                           kind_free_text="JobTask.tla model checking + job_driver (virtual time, simulated child) + TLC trace validation / monitors"),
                      dict(name="worker", path="tools/workcheck.py", serves_properties=["C01", "C02", "C08", "C15"],
                           kind_free_text="ActionWorker.tla model checking + worker_driver (real Watchexec in virtual time) + TLC trace validation (WorkerTrace.tla, timed / untimed / errors judged)"),
                      dict(name="fs", path="tools/fscheck.py", serves_properties=["C13"],
                           kind_free_text="FsWorker.tla model checking + fs_driver (real fs worker, fake notify watcher via factory hook) + TLC trace validation (FsTrace.tla)"),
                      dict(name="pure", path="tools/purecheck.py", serves_properties=[p for p in CHECKS if CHECKS[p]["engine"] == "pure"],
                           kind_free_text="decision specs in spec/pure: TLC checks the laws and enumerates (case, expected answer); pure_runner replays every case on the real crates")],
             checks=checks,
             notes="Model-based verification with explicit TLA+ specifications; see DESIGN.md. Exit 2 = tool error.",
             not_applicable=na)
    json.dump(m, open(os.path.join(ROOT, "MANIFEST.json"), "w"), indent=1)

if __name__ == "__main__":
    main()
