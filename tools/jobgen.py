"""Environment scripts for the job family (C04, C06, C07, C09, C10).

A script says what the environment does: which Job methods are called when (virtual ms),
how each spawned child behaves, which faults are injected.  Scripts are enumerated
exhaustively for short lengths and sampled (seeded) for longer ones; scripts derived from
TLC behaviours (-simulate and counterexamples) are added by jobcheck.py."""
import itertools, json, random

SIGS = ["TERM", "INT", "HUP", "USR1", "USR2", "QUIT", "23", "29", "99999", "0", "KILL"]
GRACES = [0, 20, 30]
PLAIN = ["start", "stop", "restart", "try_restart", "delete", "delete_now", "to_wait", "run",
         "signal"]
GRACEFUL = ["stop_with_signal", "restart_with_signal", "try_restart_with_signal"]

PREFIX = [dict(at=0, op="set_hook", tag=0), dict(at=0, op="set_error_handler", tag=0)]


def kid(self_at=None, sig_delay=None, fail=False, kill_fail=False, sig_fail=False, code=0):
    return dict(self_at=self_at, sig_delay=sig_delay, fail=fail, kill_fail=kill_fail,
                sig_fail=sig_fail, code=code)


KID_NEVER = kid()
KIDS_TIMING = [kid(), kid(self_at=10), kid(self_at=30), kid(sig_delay=0), kid(sig_delay=10),
               kid(sig_delay=20), kid(sig_delay=30), kid(sig_delay=60),
               kid(self_at=20, sig_delay=30), kid(self_at=50, code=3)]
KIDS_FAULT = [kid(fail=True), kid(kill_fail=True), kid(sig_fail=True),
              kid(sig_delay=10, kill_fail=True)]


def step(at, op, rng=None, **kw):
    s = dict(at=at, op=op)
    if op in GRACEFUL:
        s["sig"] = kw.pop("sig", None) or (rng.choice(SIGS[:10]) if rng else "TERM")
        s["grace"] = kw.pop("grace", None)
        if s["grace"] is None:
            s["grace"] = rng.choice(GRACES) if rng else 20
    elif op == "signal":
        s["sig"] = kw.pop("sig", None) or (rng.choice(SIGS) if rng else "USR1")
        kw.pop("grace", None)
    else:
        kw.pop("sig", None)
        kw.pop("grace", None)
    s.update({k: v for k, v in kw.items() if v is not None})
    return s


def finish(sid, steps, kids, origin):
    steps = [dict(s) for s in PREFIX] + steps
    last = max(s["at"] for s in steps)
    return dict(id=sid, origin=origin, kids=kids, steps=steps, horizon=last + 1000)


def rand_script(rng, sid, ops, n, kid_pool, gaps=(0, 0, 10, 20, 30, 50), waiters=(1,),
                endings=False):
    t, steps = 0, []
    dead = False
    for i in range(n):
        gap = rng.choice(gaps) if i else 0
        t += gap
        op = rng.choice(ops)
        kw = {}
        if gap == 0 and rng.random() < 0.3:
            kw["settle"] = True
        w = rng.choice(waiters)
        if w != 1:
            kw["waiters"] = w
        steps.append(step(t, op, rng, **kw))
    if endings:
        r = rng.random()
        if r < 0.5:
            pos = rng.randrange(len(steps) + 1)
            at = steps[pos - 1]["at"] if pos else 0
            if pos < len(steps):
                at = steps[pos]["at"]
            end = rng.choice(["drop_handle", "delete", "delete_now"])
            steps.insert(pos, step(at, end, rng))
    kids = [rng.choice(kid_pool) for _ in range(4)]
    return finish(sid, steps, kids, "random")


def exhaustive_pairs():
    """start; then every ordered pair of operations, burst and spaced, for three child kinds."""
    out = []
    ops = PLAIN + GRACEFUL
    i = 0
    for k in (kid(), kid(self_at=10), kid(sig_delay=10)):
        for a, b in itertools.product(ops, ops):
            for gap in (0, 10, 30):
                steps = [step(0, "start"), step(10, a, grace=20, sig="TERM"),
                         step(10 + gap, b, grace=20, sig="INT")]
                out.append(finish("x%05d" % i, steps, [k, k, k, k], "exhaustive-pairs"))
                i += 1
    return out


def exhaustive_single():
    """every operation in every command state (never started / running / finished), every kid."""
    out = []
    i = 0
    for op in PLAIN + GRACEFUL:
        for state in ("pending", "running", "finished"):
            for k in KIDS_TIMING + KIDS_FAULT:
                for grace in (GRACES if op in GRACEFUL else [None]):
                    steps = []
                    if state != "pending":
                        steps.append(step(0, "start"))
                    if state == "finished":
                        steps.append(step(10, "stop"))
                    steps.append(step(20, op, grace=grace, sig="TERM"))
                    steps.append(step(20, "run"))
                    steps.append(step(200, "run"))
                    out.append(finish("e%05d" % i, steps, [KID_NEVER if state == "finished" else k, k, k],
                                      "exhaustive-single"))
                    i += 1
    return out


def graceful_grid():
    """C06: a graceful control on a running child x grace x child reaction x what is queued behind."""
    out = []
    i = 0
    behind = [None, "run", "start", "stop", "to_wait", "delete_now", "try_restart", "delete",
              "stop_with_signal", "signal"]
    for op in GRACEFUL:
        for grace in GRACES:
            for k in KIDS_TIMING:
                for b in behind:
                    for bgap in (0, 10, grace, grace + 10):
                        if b is None and bgap:
                            continue
                        steps = [step(0, "start"), step(10, op, grace=grace, sig="TERM")]
                        if b:
                            steps.append(step(10 + bgap, b, grace=10, sig="INT"))
                        steps.append(step(150, "run"))
                        out.append(finish("g%05d" % i, steps, [k, KID_NEVER, KID_NEVER],
                                          "graceful-grid"))
                        i += 1
    return out


def graceful_fault_grid():
    """C06/C07/C09: a graceful control on a running child whose replacement fails to spawn, or whose own kill
    or signal fails, with a wait-for-end (one or two waiters) or another control sent during the grace
    period."""
    out = []
    i = 0
    firsts = [kid(), kid(sig_delay=10), kid(self_at=15), kid(kill_fail=True), kid(sig_delay=10, kill_fail=True),
              kid(sig_fail=True)]
    seconds = [kid(fail=True), kid(kill_fail=True), kid(self_at=10)]
    behind = [None, "to_wait", "to_wait2", "run", "start", "stop_with_signal", "try_restart_with_signal", "stop"]
    for op in GRACEFUL:
        for grace in GRACES:
            for k1 in firsts:
                for k2 in seconds:
                    for b in behind:
                        steps = [step(0, "start"), step(10, op, grace=grace, sig="TERM")]
                        if b == "to_wait2":
                            steps.append(step(15, "to_wait", waiters=2))
                        elif b:
                            steps.append(step(15, b, grace=10, sig="INT"))
                        steps.append(step(150, "run"))
                        steps.append(step(160, "start"))
                        steps.append(step(200, "run"))
                        out.append(finish("f%05d" % i, steps, [k1, k2, KID_NEVER, KID_NEVER], "graceful-fault-grid"))
                        i += 1
    return out


RAW = ["raw_continue", "raw_delete", "raw_next_ending"]


def raw_scripts(rng, n):
    """C04/C09: the controls that only Job::control() sends on their own (the continuation of a graceful
    try-restart, Delete without Stop, NextEnding at normal priority): each in every command state, then
    among random controls."""
    out = []
    i = 0
    for op in RAW:
        for state in ("pending", "running", "finished", "grace-restart", "grace-stop"):
            for k in KIDS_TIMING + KIDS_FAULT:
                for k2 in (KID_NEVER, kid(fail=True), kid(self_at=10)):
                    steps = []
                    if state != "pending":
                        steps.append(step(0, "start"))
                    if state == "finished":
                        steps.append(step(10, "stop"))
                    if state == "grace-restart":
                        steps.append(step(10, "try_restart_with_signal", grace=30, sig="TERM"))
                    if state == "grace-stop":
                        steps.append(step(10, "stop_with_signal", grace=30, sig="TERM"))
                    steps.append(step(20, op))
                    steps.append(step(20, "run"))
                    steps.append(step(100, "to_wait"))
                    steps.append(step(200, "run"))
                    out.append(finish("r%05d" % i, steps, [KID_NEVER if state == "finished" else k, k2, k2, KID_NEVER],
                                      "raw-controls"))
                    i += 1
    ops = PLAIN + GRACEFUL + RAW + RAW + ["start", "start", "run"]
    ops = [o for o in ops if o not in ("delete", "delete_now")]
    for j in range(n):
        s = rand_script(rng, "R%05d" % j, ops, rng.randrange(2, 9), KIDS_TIMING + KIDS_FAULT, waiters=(1, 1, 2))
        s["origin"] = "raw-controls"
        out.append(s)
    return out


def order_scripts(rng, n):
    """C10: bursts mixing normal, high and urgent controls, with and without an armed timer."""
    out = []
    ops = ["run", "run", "run", "to_wait", "delete_now", "start", "stop", "signal"]
    for i in range(n):
        steps = [step(0, "start")]
        t = 10
        armed = rng.random() < 0.5
        if armed:
            steps.append(step(t, "stop_with_signal", grace=rng.choice([20, 30]), sig="TERM"))
        # let the task park, then a burst
        t += rng.choice([0, 10])
        for _ in range(rng.randrange(2, 7)):
            steps.append(step(t, rng.choice(ops), rng))
        if rng.random() < 0.5:
            t += rng.choice([10, 30])
            for _ in range(rng.randrange(1, 4)):
                steps.append(step(t, rng.choice(ops), rng))
        k = rng.choice([kid(), kid(sig_delay=10), kid(sig_delay=60)])
        out.append(finish("o%05d" % i, steps, [k, kid(), kid()], "order"))
    # long runs of high-priority controls with a few normal ones among them: whatever the length of the
    # run, every high (and a trailing urgent) control is taken before any normal one
    for i in range(n // 4):
        steps = [step(0, "start")]
        t = 10
        if rng.random() < 0.3:
            steps.append(step(t, "stop_with_signal", grace=rng.choice([20, 30]), sig="TERM"))
        t += rng.choice([0, 10])
        burst = ["to_wait"] * rng.randrange(5, 13) + [rng.choice(["run", "signal", "run"]) for _ in range(rng.randrange(1, 4))]
        rng.shuffle(burst)
        if rng.random() < 0.3:
            burst.append("delete_now")
        for op in burst:
            steps.append(step(t, op, rng))
        if rng.random() < 0.5:
            steps.append(step(t + 30, "run", rng))
        k = rng.choice([kid(), kid(sig_delay=10), kid(self_at=25)])
        out.append(finish("l%05d" % i, steps, [k, kid(), kid()], "order-long"))
    return out


def hook_scripts(rng, n):
    """C09: spawn hooks set, replaced (sync and async) and unset, error handlers set (sync and async) and
    unset, run() and run_async() with futures of several durations, among the process controls."""
    out = []
    proc = ["start", "stop", "restart", "try_restart", "restart_with_signal", "try_restart_with_signal",
            "stop_with_signal", "signal", "to_wait", "start", "restart"]
    for i in range(n):
        steps, t = [], 0
        for j in range(rng.randrange(3, 10)):
            t += rng.choice([0, 0, 10, 20, 30, 50]) if j else 0
            r = rng.random()
            kw = {}
            if r < 0.45:
                op = rng.choice(proc)
            elif r < 0.60:
                op = rng.choice(["set_hook", "set_hook", "set_async_hook", "unset_hook"])
                if op != "unset_hook":
                    kw["tag"] = rng.choice([1, 2, 3])
            elif r < 0.70:
                op = rng.choice(["set_error_handler", "set_async_error_handler", "unset_error_handler"])
                if op != "unset_error_handler":
                    kw["tag"] = rng.choice([1, 2])
            elif r < 0.88:
                op = "run_async"
                kw["delay"] = rng.choice([0, 0, 10, 25, 40, 100])
            else:
                op = "run"
            st = step(t, op, rng, **kw)
            if rng.random() < 0.2 and not j == 0:
                st["settle"] = True
            steps.append(st)
        if rng.random() < 0.3:
            steps.append(step(t + rng.choice([0, 10]), rng.choice(["delete", "delete_now", "drop_handle"]), rng))
        kids = [rng.choice(KIDS_TIMING + KIDS_FAULT) for _ in range(5)]
        s = finish("h%05d" % i, steps, kids, "hooks")
        s["horizon"] += 800
        out.append(s)
    return out


def ticket_scripts(rng, n):
    """C07: waiters, clones, failures, job endings at any position."""
    out = []
    ops = PLAIN + GRACEFUL
    for i in range(n):
        s = rand_script(rng, "t%05d" % i, ops, rng.randrange(1, 7), KIDS_TIMING + KIDS_FAULT,
                        waiters=(1, 1, 2, 3), endings=True)
        s["origin"] = "tickets"
        out.append(s)
    return out


def long_scripts(rng, n):
    """long sequences of controls: whatever holds for eight controls holds for thirty"""
    out = []
    ops = PLAIN + GRACEFUL + ["run", "start", "start", "to_wait"]
    ops = [o for o in ops if o not in ("delete", "delete_now")]
    for i in range(n):
        s = rand_script(rng, "L%05d" % i, ops, rng.randrange(15, 32), KIDS_TIMING + KIDS_FAULT, waiters=(1, 1, 2))
        s["origin"] = "long"
        s["kids"] = [rng.choice(KIDS_TIMING + KIDS_FAULT) for _ in range(12)]
        out.append(s)
    return out


def mixed_scripts(rng, n, maxlen=8):
    out = []
    ops = PLAIN + GRACEFUL + ["run", "start", "start"]
    for i in range(n):
        s = rand_script(rng, "m%05d" % i, ops, rng.randrange(1, maxlen + 1),
                        KIDS_TIMING + KIDS_FAULT, waiters=(1, 1, 2), endings=True)
        out.append(s)
    return out


def dump(scripts, path):
    with open(path, "w") as f:
        for s in scripts:
            f.write(json.dumps(s) + "\n")
