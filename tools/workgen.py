"""Event scripts for the action-worker family (C01, C02, C15)."""
import json, random


def ev(i, at, prio=1, verdict="pass", empty=False, hold=0, act="none", arg=0, onerr="ignore"):
    return dict(id=i, at=at, prio=prio, verdict=verdict, empty=empty, hold=hold, act=act, arg=arg, onerr=onerr)


def script(sid, events, origin, cap=4096, ecap=64, throttle=50, sync=False, throttles=()):
    last = max([e["at"] + e["hold"] for e in events] + [t for t, _ in throttles] + [0])
    return dict(id=sid, origin=origin, cap=cap, ecap=ecap, throttle=throttle, events=events,
                sync_handler=sync, throttles=list(throttles), horizon=last + 2000)


def flow_scripts(rng, n):
    """C01: any stream of events x verdicts x priorities x handler durations x queue sizes."""
    out = []
    for k in range(n):
        m = rng.randrange(1, 10)
        sync = rng.random() < 0.2
        evs, t = [], 0
        for i in range(1, m + 1):
            t += rng.choice([0, 0, 0, 10, 20, 40, 60, 120])
            evs.append(ev(i, t, prio=rng.choice([0, 1, 1, 1, 2, 3]),
                          verdict=rng.choice(["pass", "pass", "reject", "error"]),
                          empty=rng.random() < 0.15,
                          hold=0 if sync else rng.choice([0, 0, 0, 30, 120])))
        if rng.random() < 0.3:
            evs.append(ev(m + 1, t + rng.choice([0, 30, 200]), act=rng.choice(["quit", "gquit"])))
        out.append(script("f%05d" % k, evs, "flow", cap=rng.choice([1, 2, 4, 4096]),
                          ecap=64, throttle=rng.choice([0, 30, 50]), sync=sync))
    # long streams: whatever holds for a handful of events holds for dozens (counters, batch sizes)
    for j in range(max(10, n // 60)):
        m = rng.randrange(30, 90)
        evs, t = [], 0
        for i in range(1, m + 1):
            t += rng.choice([0, 0, 0, 0, 5, 10, 40])
            evs.append(ev(i, t, prio=rng.choice([0, 1, 1, 1, 2, 3]), verdict=rng.choice(["pass", "pass", "reject", "error"]),
                          empty=rng.random() < 0.1, hold=rng.choice([0, 0, 0, 20])))
        out.append(script("F%05d" % j, evs, "flow-long", cap=rng.choice([2, 8, 4096]), ecap=64, throttle=rng.choice([0, 30])))
    return out


def window_scripts(rng, n):
    """C02: arrivals around the window end, streams of rejected events, urgent flushes, throttle changes."""
    out = []
    k = 0
    # deterministic grid: second event at every offset around the window end, for each throttle
    for th in (0, 30, 50):
        for off in (0, 10, th - 10, th, th + 10, 2 * th + 10):
            if off < 0:
                continue
            for v2 in ("pass", "reject"):
                for p2 in (1, 3):
                    evs = [ev(1, 100), ev(2, 100 + off, prio=p2, verdict=v2), ev(3, 600)]
                    out.append(script("w%05d" % k, evs, "window-grid", throttle=th))
                    k += 1
    # continuous stream of rejected events across the window end
    for th in (30, 50):
        for step in (5, 10):
            evs = [ev(1, 100)] + [ev(2 + i, 100 + step * (i + 1), verdict="reject") for i in range(40)]
            out.append(script("w%05d" % k, evs, "rejected-stream", throttle=th))
            k += 1
            evs = [ev(1, 100)] + [ev(2 + i, 100 + step * (i + 1)) for i in range(30)]
            out.append(script("w%05d" % k, evs, "accepted-stream", throttle=th))
            k += 1
    for _ in range(n):
        th = rng.choice([0, 30, 50])
        m = rng.randrange(1, 9)
        evs, t = [], rng.choice([0, 50])
        for i in range(1, m + 1):
            t += rng.choice([0, 10, 10, 20, th, th + 10, 100])
            evs.append(ev(i, t, prio=rng.choice([1, 1, 1, 2, 3]), verdict=rng.choice(["pass", "pass", "reject"]),
                          hold=rng.choice([0, 0, 0, 40])))
        ths = []
        if rng.random() < 0.5:
            ths = [(rng.choice([5, 15, 45, 105]) + 10 * rng.randrange(0, 8), rng.choice([0, 20, 50, 100]))
                   for _ in range(rng.randrange(1, 3))]
        if rng.random() < 0.2:
            evs.append(ev(m + 1, t + 10, act=rng.choice(["throttle", "reconfig"]), arg=rng.choice([0, 20, 100])))
            evs.append(ev(m + 2, t + 200))
            evs.append(ev(m + 3, t + 210))
        out.append(script("w%05d" % k, evs, "window-random", throttle=th, throttles=ths))
        k += 1
    return out


def error_scripts(rng, n):
    """C15: filter errors among ordinary events, bursts beyond the error queue, handler behaviours."""
    out = []
    for k in range(n):
        m = rng.randrange(1, 9)
        evs, t = [], 0
        fatal = rng.random() < 0.35
        slow = rng.random() < 0.4
        for i in range(1, m + 1):
            t += rng.choice([0, 0, 0, 10, 30, 80])
            v = rng.choice(["pass", "error", "error", "reject"])
            onerr = "ignore"
            if v == "error" and fatal and rng.random() < 0.4:
                onerr = rng.choice(["elevate", "critical"])
            elif v == "error" and rng.random() < 0.15:
                onerr = "replace"           # the error handler installs a new one from inside the call
            e = ev(i, t, prio=rng.choice([1, 1, 2]), verdict=v, onerr=onerr, hold=rng.choice([0, 0, 50]))
            if v == "error" and slow:
                e["errhold"] = rng.choice([0, 20, 60, 200])     # a slow error handler
            evs.append(e)
        evs.append(ev(m + 1, t + 300))        # a later ordinary event must still be delivered
        out.append(script("r%05d" % k, evs, "errors", cap=rng.choice([2, 4096]), ecap=rng.choice([1, 1, 2, 64]),
                          throttle=rng.choice([0, 30])))
    # long error bursts against a tiny error channel, with handlers of several speeds
    for j in range(max(10, n // 60)):
        m = rng.randrange(20, 50)
        evs, t = [], 0
        for i in range(1, m + 1):
            t += rng.choice([0, 0, 0, 10, 30])
            v = rng.choice(["error", "error", "pass", "reject"])
            e = ev(i, t, prio=rng.choice([1, 1, 2]), verdict=v, hold=rng.choice([0, 0, 30]))
            if v == "error":
                e["errhold"] = rng.choice([0, 0, 10, 40])
                if rng.random() < 0.1:
                    e["onerr"] = "replace"
            evs.append(e)
        evs.append(ev(m + 1, t + 2500))
        sc = script("R%05d" % j, evs, "errors-long", cap=rng.choice([4, 4096]), ecap=rng.choice([1, 2]), throttle=rng.choice([0, 30]))
        sc["horizon"] += 3000
        out.append(sc)
    return out


def reconfig_scripts(rng, n):
    """C13, last clause: a handler that reconfigures Watchexec from inside its own invocation - path set,
    watcher kind, throttle, the error handler and the action handler itself; an error handler that replaces
    itself - neither deadlocks nor disturbs the invocation in progress; later events and errors are handled."""
    out, k = [], 0
    for sync in (False, True):
        for pos in (1, 2, 3):
            for hold in ((0,) if sync else (0, 40)):
                for arg in (0, 30):
                    evs = [ev(i, 20 * i, hold=hold, act="reconfig" if i == pos else "none", arg=arg) for i in range(1, 5)]
                    evs.append(ev(5, 400, verdict="error", onerr="replace"))
                    evs.append(ev(6, 420, verdict="error"))
                    evs.append(ev(7, 600))
                    out.append(script("c%05d" % k, evs, "handler-reconfig-grid", throttle=0, sync=sync))
                    k += 1
    for _ in range(n):
        sync = rng.random() < 0.3
        m = rng.randrange(2, 9)
        evs, t = [], 0
        for i in range(1, m + 1):
            t += rng.choice([0, 10, 30, 80])
            v = rng.choice(["pass", "pass", "error", "reject"])
            e = ev(i, t, prio=rng.choice([1, 1, 2, 3]), verdict=v, hold=0 if sync else rng.choice([0, 0, 30]),
                   act=rng.choice(["none", "reconfig", "reconfig", "throttle"]) if v == "pass" else "none", arg=rng.choice([0, 20, 50]),
                   onerr=rng.choice(["ignore", "replace", "replace"]) if v == "error" else "ignore")
            evs.append(e)
        evs.append(ev(m + 1, t + 300))
        out.append(script("c%05d" % k, evs, "handler-reconfig", cap=rng.choice([2, 4096]), ecap=rng.choice([1, 64]),
                          throttle=rng.choice([0, 30]), sync=sync))
        k += 1
    return out


def dump(scripts, path):
    with open(path, "w") as f:
        for s in scripts:
            f.write(json.dumps(s) + "\n")


# ---------------------------------------------------------------- C08: quit with supervised jobs

def kid(self_at=None, sig_delay=None, fail=False, kill_fail=False, sig_fail=False, code=0):
    return dict(self_at=self_at, sig_delay=sig_delay, fail=fail, kill_fail=kill_fail, sig_fail=sig_fail, code=code)


JOB_STATES = ["never", "running", "finished", "armed_stop", "armed_restart", "deleted", "queued",
              "clone", "forgotten", "new_in_quit_action"]
KID_CLASSES = [kid(), kid(sig_delay=0), kid(sig_delay=20), kid(sig_delay=60), kid(self_at=30),
               kid(self_at=200, sig_delay=20)]


def jo(job, op, grace=0, sig="TERM"):
    return dict(job=job, op=op, grace=grace, sig=sig)


def quit_script(sid, states, kids, manner, grace, tq, g1, origin="quit"):
    """states[j] = state of job j when the quit is asked at tq (the arming happens at 50)."""
    setup, arm, atquit = [], [], []
    for j, st in enumerate(states):
        if st == "never":
            setup.append(jo(j, "create"))
        elif st == "running":
            setup.append(jo(j, "start"))
        elif st == "finished":
            setup += [jo(j, "start"), jo(j, "stop")]
        elif st == "armed_stop":
            setup.append(jo(j, "start"))
            arm.append(jo(j, "stop_with_signal", g1))
        elif st == "armed_restart":
            setup.append(jo(j, "start"))
            arm.append(jo(j, "try_restart_with_signal", g1))
        elif st == "deleted":
            setup += [jo(j, "start"), jo(j, "delete")]
        elif st == "queued":
            setup.append(jo(j, "start"))
            atquit += [jo(j, "run"), jo(j, "restart"), jo(j, "run")]
        elif st == "clone":
            setup += [jo(j, "start"), jo(j, "keep_clone")]
        elif st == "forgotten":
            setup.append(jo(j, "start"))
            atquit.append(jo(j, "forget"))
        elif st == "new_in_quit_action":
            atquit += [jo(j, "create"), jo(j, "start")]
    evs = [ev(1, 0)]
    evs[0]["jobops"] = setup
    if tq == 50:
        atquit = arm + atquit
    else:
        e2 = ev(2, 50)
        e2["jobops"] = arm
        evs.append(e2)
    q = ev(3, tq, act="quit" if manner == 0 else "gquit", arg=grace)
    q["jobops"] = atquit
    evs.append(q)
    s = script(sid, evs, origin, throttle=0)
    s["jobs"] = kids
    s["horizon"] = tq + 3000
    return s


def quit_scripts(rng, n):
    out = []
    k = 0
    # every job state alone, both manners, every child class, three grace values
    for st in JOB_STATES:
        for kc in KID_CLASSES:
            for manner in (0, 1):
                for grace in ((0,) if manner == 0 else (0, 30, 100)):
                    for tq in (50, 60):
                        out.append(quit_script("q%05d" % k, [st], [[kc, kc, kc]], manner, grace, tq, 40, "quit-grid"))
                        k += 1
    # a graceful stop / try-restart with a long grace period that is over early (the command exits on
    # the signal) or still pending when the quit comes: the quit owes nothing to a grace period that
    # is no longer in effect
    for st in ("armed_restart", "armed_stop"):
        for kc in KID_CLASSES:
            for manner in (0, 1):
                for grace in ((0,) if manner == 0 else (0, 30)):
                    for tq in (80, 120, 200):
                        out.append(quit_script("q%05d" % k, [st], [[kc, kc, kc]], manner, grace, tq, 100, "quit-after-grace"))
                        k += 1
    for _ in range(n):
        nj = rng.randrange(1, 4)
        states = [rng.choice(JOB_STATES) for _ in range(nj)]
        kids = [[rng.choice(KID_CLASSES) for _ in range(3)] for _ in range(nj)]
        manner = rng.choice([0, 1, 1])
        out.append(quit_script("q%05d" % k, states, kids, manner, rng.choice([0, 30, 100]),
                               rng.choice([50, 60, 80, 120]), rng.choice([0, 40, 100]), "quit-random"))
        k += 1
    return out
