"""C05: the CLI's on-busy policy."""
import json, os, random, subprocess, sys, time
import vlib
from jobcheck import sample_of

SIGNUM = {"TERM": 15, "INT": 2, "HUP": 1, "USR1": 10, "USR2": 12, "QUIT": 3}


def kid(self_at=None, sig_delay=None):
    return dict(self_at=self_at, sig_delay=sig_delay, fail=False, kill_fail=False, sig_fail=False, code=0)


KIDS = [kid(self_at=20), kid(self_at=100), kid(self_at=400), kid(), kid(sig_delay=10), kid(sig_delay=40),
        kid(self_at=150, sig_delay=10)]


def mk(sid, mode, how, postpone, debounce, stop_timeout, delay, stopsig, kids, steps, origin):
    argv = []
    sig = 15
    if mode == "restart":
        argv += ["-r"] if how == "short" else ["--on-busy-update", "restart"]
        if stopsig:
            argv += ["--stop-signal", stopsig]
            sig = SIGNUM[stopsig]
    elif mode == "signal":
        s = stopsig or "USR1"
        if how == "short":
            argv += ["--signal", s]
        else:
            argv += ["--on-busy-update", "signal", "--stop-signal", s]
        sig = SIGNUM[s]
    elif mode == "do-nothing" and how == "short":
        pass        # no mode given at all: do-nothing is the documented default
    else:
        argv += ["--on-busy-update", mode]
    if postpone:
        argv.append("--postpone")
    if delay:
        argv += ["--delay-run", "%dms" % delay]
    last = max([s["at"] for s in steps] + [0])
    return dict(id=sid, origin=origin, argv=argv, mode=mode, postpone=postpone, debounce=debounce,
                stop_timeout=stop_timeout, delay_run=delay, stop_signal=sig, kids=kids, steps=steps,
                horizon=last + 3000)


def scripts_for(tier, rng):
    out, k = [], 0
    modes = ["do-nothing", "queue", "restart", "signal"]
    # grid: one change at every position relative to a 100 ms run, each mode, postpone or not
    for mode in modes:
        for postpone in (False, True):
            for c in (0, 50, 90, 100, 110, 140, 160, 400):
                for kd in (kid(self_at=100), kid(), kid(sig_delay=10)):
                    for how in ("long", "short"):
                        steps = [dict(at=10, ev="change")] if postpone else []
                        base = 60 if postpone else 0
                        steps.append(dict(at=base + c, ev="change"))
                        steps.append(dict(at=base + c + 1000, ev="INT"))
                        out.append(mk("b%05d" % k, mode, how, postpone, 50, 30, 0, None, [kd] * 6, steps, "grid"))
                        k += 1
    n = 500 if tier == "quick" else 20000
    for _ in range(n):
        mode = rng.choice(modes)
        steps, t = [], 0
        for _ in range(rng.randrange(1, 7)):
            t += rng.choice([0, 10, 30, 50, 60, 100, 150, 300])
            steps.append(dict(at=t, ev=rng.choice(["change", "change", "change", "empty"])))
        if rng.random() < 0.6:
            steps.append(dict(at=t + rng.choice([0, 50, 500]), ev=rng.choice(["INT", "TERM"])))
        out.append(mk("b%05d" % k, mode, rng.choice(["long", "short"]), rng.random() < 0.3,
                      rng.choice([0, 30, 50]), rng.choice([0, 30, 100]), 0,
                      rng.choice([None, None, "INT", "USR1"]) if mode in ("restart", "signal") else None,
                      [rng.choice(KIDS) for _ in range(8)], steps, "random"))
        k += 1
    # --delay-run: every batch finds the command idle (quick runs, bursts far apart), so the run must start
    # exactly delay after the handler was called
    for _ in range(n // 5):
        mode = rng.choice(modes)
        steps, t = [], 0
        for _ in range(rng.randrange(1, 5)):
            t += rng.choice([300, 400, 700])
            steps.append(dict(at=t, ev="change"))
            if rng.random() < 0.4:
                steps.append(dict(at=t + rng.choice([0, 10]), ev="change"))
        out.append(mk("b%05d" % k, mode, "long", rng.random() < 0.5, rng.choice([30, 50]), 30, rng.choice([30, 80]),
                      None, [kid(self_at=20)] * 8, steps, "delay-run"))
        k += 1
    # --delay-run while the command is busy: the query is made a delay after the batch, behind the sleeps of
    # the batches before it, and acts on what it finds then.  Only the trace specification judges these.
    for _ in range(n // 2):
        mode = rng.choice(modes)
        steps, t = [], 0
        for _ in range(rng.randrange(2, 7)):
            t += rng.choice([0, 10, 30, 50, 60, 100, 150, 300])
            steps.append(dict(at=t, ev=rng.choice(["change", "change", "change", "empty"])))
        if rng.random() < 0.3:
            steps.append(dict(at=t + rng.choice([0, 50, 500]), ev=rng.choice(["INT", "TERM"])))
        sc = mk("b%05d" % k, mode, rng.choice(["long", "short"]), rng.random() < 0.3, rng.choice([0, 30, 50]),
                rng.choice([0, 30, 100]), rng.choice([20, 30, 80, 200]),
                rng.choice([None, None, "INT", "USR1"]) if mode in ("restart", "signal") else None,
                [rng.choice(KIDS) for _ in range(8)], steps, "delay-run-busy")
        sc["judge"] = "trace"
        out.append(sc)
        k += 1
    return out


def nontrivial(s):
    return sum(1 for st in s["steps"] if st["ev"] in ("change", "empty")) >= 2 or not s["postpone"]


def run(prop, tier, replay=None):
    t0 = time.time()
    rng = random.Random(vlib.seed() * 31337 + 5)
    vlib.build_harness()
    mc = vlib.tlc_check("CliBusy.tla", "CliBusy_%s.cfg" % tier, "mc_C05", workers=12, timeout=3000)
    violations = []
    if mc["violated"]:
        path = vlib.save_replay(prop, "model_" + mc["violated"], dict(kind="model", invariant=mc["violated"], tlc_tail=mc["out"][-6000:]))
        violations.append(("model invariant %s violated" % mc["violated"], path))
    e2e_only = beh_only = None
    if replay:
        with open(replay) as f:
            rp = json.load(f)
        if rp.get("kind") == "clie2e-trace":
            e2e_only, scripts = rp["script"], []
        elif rp.get("kind") == "model":
            scripts = []
        elif rp.get("kind") == "spec-behaviour":
            beh_only, scripts = rp["behaviour"], []
        else:
            scripts = [rp["script"]]
    else:
        scripts = scripts_for(tier, rng)
    by_id = {s["id"]: s for s in scripts}
    d = vlib.workdir("drv_C05")
    sp, tp = os.path.join(d, "scripts.ndjson"), os.path.join(d, "traces.ndjson")
    with open(sp, "w") as f:
        for s in scripts:
            f.write(json.dumps(s) + "\n")
    p = subprocess.run([os.path.join(vlib.BIN, "cli_driver"), sp, tp, "--threads", "12"],
                       stdout=subprocess.PIPE, stderr=subprocess.DEVNULL, text=True, timeout=3600)
    if p.returncode != 0:
        raise vlib.ToolError("cli_driver failed")
    # the monitor judges every script but those only the trace specification can (see scripts_for)
    with open(tp) as f:
        allscen = vlib.split_scenarios(f.readlines())
    mp = os.path.join(d, "traces_mon.ndjson")
    with open(mp, "w") as f:
        for sc in allscen:
            if (by_id.get(json.loads(sc[0])["a"]) or {}).get("judge") != "trace":
                f.write("".join(sc))
    acc, rej, stats, total = vlib.validate_traces("CliMon.tla", "CliMon.cfg", mp, "val_C05", shards=12)
    # is every run a behaviour of CliBusy.tla?
    tacc, trej, tstats, ttotal = vlib.validate_traces("CliTrace.tla", "CliTrace.cfg", tp, "val_C05_trace", shards=12)
    stats["distinct"] += tstats["distinct"]
    stats["generated"] += tstats["generated"]
    acc += tacc
    total += ttotal
    for r in trej:
        sid = r["script"] or ""
        why = "trace is not a behaviour of CliBusy"
        path = vlib.save_replay(prop, "%s_%s" % (sid, vlib.digest(r["event"])), dict(
            kind="trace", property=prop, script=by_id.get(sid), rejected_at_line=r["line"], event=r["event"], why=why,
            trace=[json.loads(x) for x in r["lines"]]))
        violations.append(("%s (%s): %s at line %d (%s)" % (sid, (by_id.get(sid) or {}).get("mode"), why, r["line"], r["event"]["e"]), path))
    for r in rej:
        sid = r["script"] or ""
        path = vlib.save_replay(prop, "%s_%s" % (sid, vlib.digest(r["event"])), dict(
            kind="trace", property=prop, script=by_id.get(sid), rejected_at_line=r["line"], event=r["event"],
            why=r.get("why") or ("monitor invariant %s violated" % r.get("invariant") if r.get("invariant") else "malformed trace"), trace=[json.loads(x) for x in r["lines"]]))
        violations.append(("%s (%s): %s at line %d (%s)" % (sid, (by_id.get(sid) or {}).get("mode"),
                                                           r.get("why") or ("monitor invariant %s violated" % r.get("invariant") if r.get("invariant") else "malformed trace"), r["line"], r["event"]["e"]), path))
    extra = {}
    if beh_only or not replay:
        # the other direction: behaviours of CliBusy.tla replayed on the real action logic
        import clireplay
        rviol, rextra = clireplay.run(prop, tier, rng, only=beh_only)
        violations += rviol
        extra.update(rextra)
        acc += rextra["spec_behaviours_agreed"]
        total += rextra["spec_behaviours_replayed"]
    if e2e_only or not replay:
        # the command-line program itself (its own run(): the initial event unless --postpone, the real
        # watcher, a real command), end to end
        import clie2echeck
        eviol, eextra, estats = clie2echeck.run(prop, tier, rng, only=e2e_only)
        extra.update(eextra)
        violations += eviol
        stats["distinct"] += estats["distinct"]
        stats["generated"] += estats["generated"]
        acc += eextra["end_to_end_accepted"]
        total += eextra["end_to_end_scripts"]
    with open(tp) as f:
        scen = vlib.split_scenarios(f.readlines())
    distinct = {vlib.digest({k: v for k, v in s.items() if k not in ("id", "origin")}) for s in scripts if nontrivial(s)}
    samples = [dict(script=by_id.get(json.loads(sc[0])["a"]), trace=sample_of(sc, 60))
               for sc in scen[len(scen) // 2: len(scen) // 2 + 2]]
    coverage = dict(
        states=mc["distinct"] + stats["distinct"], transitions=mc["generated"] + stats["generated"],
        model_states=mc["distinct"], model_transitions=mc["generated"], trace_states=stats["distinct"],
        spec_expressions_not_evaluated_on_traces=sorted(stats.get("uncovered") or []),
        traces_validated_against_impl=acc, evaluations=total, distinct_nontrivial=len(distinct),
        rule="scripts with a first run at start-up or at least two change bursts; distinct by (argv, child behaviours, change times)",
        exhaustive=False, samples=samples,
        checker_cmd="tlc CliBusy.tla -config CliBusy_%s.cfg ; cli_driver ; tlc CliMon.tla -config CliMon.cfg (per shard) ; tlc CliTrace.tla -config CliTrace.cfg (per shard) ; tlc -simulate MC_CliReplay.tla ; cli_driver ; observations compared" % tier,
        script_families=sorted({s.get("origin", "?") for s in scripts}), **extra)
    assumptions = [
        "the CLI's make_config is built from a real argv (so -r / --signal shorthands go through the CLI's normalisation) and runs on a real Watchexec; the spawned command is a simulated child (cfg(watchexec_verif) spawn interceptor), time is tokio's paused clock",
        "changes are synthetic filesystem events sent with send_event; the start-up event is sent as run_watchexec() does (virtual tier); the end-to-end tier runs the CLI's own run() with a real watcher and a real command in real time and demands only what does not depend on exact timing (a script is held against the code only when rejected three times in a row)",
        "spec-to-code direction: behaviours of CliBusy.tla in which the environment makes a change only at an instant at which nothing else happens; behaviours the specification marks racy (two timers of one instant, a control arriving in the instant the command ends) are not replayed",
        "queue mode: the waiter task's wake-up latency is smaller than the debounce delay (single-threaded runtime); the multi-threaded race is documented in DESIGN.md and not checked",
    ]
    vlib.write_evidence(prop, tier, coverage, time.time() - t0, len(violations), assumptions)
    return violations
