#!/bin/sh
# usage: eval_benign_scratch.sh <name> <worktree-with-BENIGN> "<props>"
# Runs the quick checks against a behaviour-preserving refactor that stays applied in its scratch worktree
# (a scratch copy of the harness is pointed at it; /repo is not touched).  Every check must stay quiet.
id="$1"; wt="$2"; props="$3"
out=/verif/benign/$id; mkdir -p "$out"
cp "$wt/BENIGN/patch.diff" "$out/patch.diff"; cp "$wt/BENIGN/why.txt" "$out/why.txt" 2>/dev/null
h=/tmp/harness_$id
rm -rf "$h"; mkdir -p "$h"
(cd /verif/harness && tar cf - --exclude target .) | (cd "$h" && tar xf -)
sed -i "s#/repo/crates#$wt/crates#g" "$h/Cargo.toml"
: > "$out/checks.txt"
for p in $props; do
  (cd /verif && VERIF_HARNESS_DIR="$h" VERIF_WORK_DIR="/verif/.work/w_bn_$id" VERIF_SCRATCH_REPLAYS=1 ./check "$p" --tier quick > "/verif/.work/bn_${id}_$p.out" 2>&1; rc=$?; echo "$p rc=$rc violations=$(grep -c '^VIOLATION' /verif/.work/bn_${id}_$p.out)" >> "$out/checks.txt"; grep -A1 '^VIOLATION' "/verif/.work/bn_${id}_$p.out" | sed -n 2p | cut -c1-260 >> "$out/checks.txt")
done
rm -rf "$h"
cat "$out/checks.txt"
