#!/usr/bin/env python3
"""Entry point of every check:  ./check <Cxx> --tier quick|thorough [--replay PATH]
exit 0: property held on everything explored; 1: VIOLATION line(s) printed; 2: tool error."""
import argparse, os, sys, traceback
sys.path.insert(0, os.path.dirname(os.path.abspath(__file__)))
import vlib

JOB = {"C04", "C06", "C07", "C09", "C10"}
WORK = {"C01", "C02", "C15", "C08"}


def main():
    ap = argparse.ArgumentParser()
    ap.add_argument("prop")
    ap.add_argument("--tier", default=os.environ.get("VERIF_TIER", "quick"), choices=["quick", "thorough"])
    ap.add_argument("--replay")
    a = ap.parse_args()
    prop = a.prop
    try:
        if prop in JOB:
            import jobcheck
            violations = jobcheck.run(prop, a.tier, a.replay)
        elif prop == "C05":
            import clicheck
            violations = clicheck.run(prop, a.tier, a.replay)
        elif prop == "C13":
            import fscheck
            violations = fscheck.run(prop, a.tier, a.replay)
        elif prop in WORK:
            import workcheck
            violations = workcheck.run(prop, a.tier, a.replay)
        else:
            import purecheck
            violations = purecheck.run(prop, a.tier, a.replay)
    except vlib.ToolError as e:
        print("TOOL-ERROR: %s" % e, file=sys.stderr)
        return 2
    except Exception:
        traceback.print_exc()
        return 2
    known = vlib.open_findings(prop)
    reported = 0
    for what, path in violations:
        k = [x for x in known if x.get("match") and x["match"] in what]
        if k:
            print("KNOWN-FINDING: property=%s %s" % (prop, k[0]["what"]))
            continue
        reported += 1
        if reported <= 25:
            print("VIOLATION property=%s replay=%s" % (prop, path))
            print("  " + what)
    if reported:
        if reported > 25:
            print("(%d violations in all; the first 25 are listed, every replay file is under replays/)" % reported)
        return 1
    print("OK property=%s tier=%s" % (prop, a.tier))
    return 0


if __name__ == "__main__":
    sys.exit(main())
