SPECIFICATION RSpec
CONSTANTS
  Inf = 1000
  Tracing = TRUE
  NEvents = 5
  MaxTime = 14
  Classes <- ClassesReplay
  Cap = 64
  ECap = 1
  Throttle0 = 2
INVARIANT PrintBehaviour
CHECK_DEADLOCK FALSE
