SPECIFICATION Spec
CONSTANTS
  Modes = {"do-nothing", "queue", "restart", "signal"}
  Postpones = {TRUE, FALSE}
  Ds = {1, 2}
  Delays = {0, 1, 3}
  Gs = {0, 2}
  MaxChanges = 4
  MaxTime = 13
  WaiterAtomic = TRUE
  Inf = 1000
INVARIANTS Freshness FirstRun PostponedWaits DoNothingInert SignalOnlySignals QueueInert OneRunPerBatch KillAtTimeout QueuedHasWaiter
CHECK_DEADLOCK FALSE
