SPECIFICATION MCSpec
CONSTANTS
  Inf = 1000
  Fixes <- AllFixes
  Tracing = FALSE
  MaxOps = 4
  MaxTime = 5
  MaxKids = 2
  Ops <- OpsRaw
  Graces = {0, 2}
  KidClasses <- KidsBasic
VIEW MCView
INVARIANTS AtMostOneLive KillAtExpiry ReplacementOnce NoStaleRestart NoDroppedFlag NoPanic EndedMeansGone ResolvedAtRest NothingStuck StateShape PriorityOrder
CHECK_DEADLOCK FALSE
