SPECIFICATION MCSpec
CONSTANTS
  MaxJobs = 2
  KnownClasses = {"daemon", "fork_ignores"}
INVARIANTS QuitTerminates CommandsGone MembersGoneButKnown NoEarlyKill
CHECK_DEADLOCK FALSE
