------------------------------- MODULE MC_Job -------------------------------
(* Model-checking harness for JobTask: a bounded environment and the        *)
(* properties of C04, C06, C07, C09, C10 as invariants.                     *)
EXTENDS JobTask

CONSTANTS MaxOps, MaxTime, MaxKids, Ops, Graces, KidClasses

Kid(selfAt, sigd, fail, killFail, sigFail) ==
    [selfAt |-> selfAt, sigd |-> sigd, fail |-> fail, killFail |-> killFail,
     sigFail |-> sigFail, code |-> 0]

\* never exits / exits on its own at 1 / exits 1 after a signal / exits 3 after a signal
KidsBasic == { Kid(-1, -1, FALSE, FALSE, FALSE), Kid(1, -1, FALSE, FALSE, FALSE),
               Kid(-1, 1, FALSE, FALSE, FALSE) }
KidsGrace == { Kid(-1, -1, FALSE, FALSE, FALSE), Kid(3, -1, FALSE, FALSE, FALSE),
               Kid(-1, 1, FALSE, FALSE, FALSE), Kid(-1, 2, FALSE, FALSE, FALSE),
               Kid(-1, 3, FALSE, FALSE, FALSE) }
KidsFaulty == { Kid(-1, -1, FALSE, FALSE, FALSE), Kid(1, -1, FALSE, FALSE, FALSE),
                Kid(-1, 1, FALSE, FALSE, FALSE), Kid(-1, -1, TRUE, FALSE, FALSE),
                Kid(-1, -1, FALSE, TRUE, FALSE), Kid(-1, -1, FALSE, FALSE, TRUE) }

OpsAll == {"start", "stop", "stop_with_signal", "restart", "restart_with_signal",
           "try_restart", "try_restart_with_signal", "signal", "delete", "delete_now",
           "to_wait", "run", "run_async", "unset_hook"}
\* with the controls that only Job::control() sends on their own
OpsRaw == OpsAll \cup {"raw_continue", "raw_delete", "raw_next_ending"}
OpsGraceful == {"start", "stop_with_signal", "restart_with_signal",
                "try_restart_with_signal", "to_wait", "run", "delete_now", "try_restart"}
OpsOrder == {"start", "run", "to_wait", "delete_now", "stop_with_signal", "delete"}

\* operations with a duration: the graceful ones (grace period) and run_async (how long its future takes)
IsGraceful(op) == op \in {"stop_with_signal", "restart_with_signal", "try_restart_with_signal", "run_async"}

MCInit ==
    /\ now = 0 /\ qU = <<>> /\ qH = <<>> /\ qN = <<>>
    /\ closed = FALSE /\ parked = FALSE
    /\ kids \in [1..MaxKids -> KidClasses]
    /\ S = [InitS EXCEPT !.hookTag = 0, !.errh = 0]
    /\ sent = {} /\ cancelled = {} /\ nextSn = 1 /\ viol = {}

MCSend ==
    /\ now' = now
    /\ Cardinality(sent) < MaxOps
    /\ \E op \in Ops :
         IF IsGraceful(op)
         THEN \E g \in Graces : Send(op, Cardinality(sent) + 1, 15, g, 0)
         ELSE Send(op, Cardinality(sent) + 1, 15, 0, 0)

MCTick ==
    /\ Quiescent
    /\ now < MaxTime
    /\ now' = now + 1
    /\ UNCHANGED <<qU, qH, qN, closed, parked, kids, S, sent, cancelled, nextSn, viol>>

MCNext == MCSend \/ (DropHandle /\ now' = now) \/ TaskStep \/ Park \/ MCTick

MCSpec == MCInit /\ [][MCNext]_vars

\* `out` is recomputed by every step and is not part of the behaviour
MCView == <<now, qU, qH, qN, closed, parked, kids, [S EXCEPT !.out = <<>>], sent, cancelled, viol>>

---------------------------------------------------------------------------
Range(f) == {f[i] : i \in DOMAIN f}
QueueIds == {m.id : m \in Range(qU) \cup Range(qH) \cup Range(qN)}

\* C04
AtMostOneLive ==
    /\ Cardinality(S.live) <= 1
    /\ S.task = "run" => ((S.cs = "running") <=> (S.live # {}))
    /\ S.task = "run" /\ S.cs = "running" => S.live = {S.kid.n}

\* C06
KillAtExpiry      == S.timer.on /\ S.task = "run" => now <= S.timer.until
ReplacementOnce   == S.credit >= 0
\* a pending graceful restart exists only while its process runs and its timer is armed
\* (except between the Stop and the Delete of a delete_now that overtook it)
NoStaleRestart    == (S.task = "run" /\ S.onEndRestart.on) => ((S.cs = "running" /\ S.timer.on) \/ qU # <<>>)

\* C07
Resolved(id) == id \in S.raised \/ id \in cancelled \/ S.gone
Held(id) ==
    \/ id \in QueueIds
    \/ S.timer.on /\ S.timer.id = id
    \/ S.onEndRestart.on /\ S.onEndRestart.id = id
    \/ id \in Range(S.onEnd)
    \/ S.afn.on /\ S.afn.id = id
NoDroppedFlag   == S.task # "panicked" => \A id \in sent : Resolved(id) \/ Held(id)
NoPanic         == S.task # "panicked"
EndedMeansGone  == S.task = "ended" => S.gone
\* at rest (nothing enabled now or later) the only unresolved tickets wait for the end of a
\* child that never exits
ResolvedAtRest ==
    (Quiescent /\ NextDeadline = Inf /\ S.task # "panicked")
       => \A id \in sent : Resolved(id) \/ (S.cs = "running" /\ id \in Range(S.onEnd))
\* queued normal controls may stay behind only while a grace timer is armed
NothingStuck ==
    (Quiescent /\ S.task = "run" /\ ~closed /\ ~S.afn.on) => (qU = <<>> /\ qH = <<>> /\ (qN = <<>> \/ S.timer.on))

\* C09 (sanity of the documented state machine)
StateShape ==
    /\ S.cs \in {"pending", "running", "finished"}
    /\ S.cs = "finished" <=> S.st # ""
    /\ S.timer.on /\ S.task = "run" /\ S.cs # "running" => qU # <<>>   \* only inside delete_now

\* C10
PriorityOrder == "priority" \notin viol

=============================================================================
