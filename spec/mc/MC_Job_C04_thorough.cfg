SPECIFICATION MCSpec
CONSTANTS
  Inf = 1000
  Fixes <- AllFixes
  Tracing = FALSE
  MaxOps = 4
  MaxTime = 4
  MaxKids = 2
  Ops <- OpsRaw
  Graces = {0, 2}
  KidClasses <- KidsBasic
VIEW MCView
INVARIANTS AtMostOneLive
CHECK_DEADLOCK FALSE
