\* not registered: without the second load under the lock TLC finds the lost wake-up
SPECIFICATION Spec
CONSTANTS
  Tasks = {1}
  Raisers = {101}
  Recheck = FALSE
  Slots = 0
  Spurious = FALSE
INVARIANTS NoLostWakeup
CHECK_DEADLOCK FALSE
