----------------------------- MODULE MC_JobQuit -----------------------------
(***************************************************************************)
(* C08, the job side: what a graceful quit of the action worker does to    *)
(* one supervised job - `job.stop_with_signal(signal, grace); job.delete()`*)
(* (crates/lib/src/action/worker.rs) - whatever the job is doing: never    *)
(* started, running, finished, mid graceful stop / restart with an armed   *)
(* timer, controls still queued.  JobTask is the model of the job; this    *)
(* module adds the quit and checks that the job task has ended no later    *)
(* than (remainder of the pending grace period) + (the quit's own grace),  *)
(* and that nothing is left running.  The jobs of a Watchexec are          *)
(* independent, the worker joins them all: its bound is the largest one.   *)
(***************************************************************************)
EXTENDS MC_Job

CONSTANTS QuitGraces

VARIABLES quitAt, bound

qvars == <<vars, quitAt, bound>>

QInit == MCInit /\ quitAt = -1 /\ bound = 0

RECURSIVE QueuedGraces(_)
QueuedGraces(q) ==
    IF q = <<>> THEN 0
    ELSE (IF Head(q).ctl \in {"GracefulStop", "TryGracefulRestart", "AsyncFunc"} THEN Head(q).grace ELSE 0)
         + QueuedGraces(Tail(q))

\* the grace periods in effect at the quit: the remainder of an armed timer, those of graceful
\* controls already queued, and the quit's own - plus what the user's own run_async() futures take
\* (the one being awaited and those queued): the job task itself awaits them, nothing else happens
\* in that job meanwhile, and nothing in C08 speaks about them
\* the quit task calls stop_with_signal() and delete() back to back, without yielding in between
QuitSend(g) ==
    /\ quitAt = -1
    /\ ~closed
    /\ sent' = sent \cup {90, 91}
    /\ IF S.gone
       THEN /\ cancelled' = cancelled \cup {90, 91} /\ UNCHANGED <<qU, qH, qN, nextSn>>
       ELSE /\ cancelled' = cancelled
            /\ nextSn' = nextSn + 3
            /\ UNCHANGED <<qU, qH>>
            /\ qN' = IF S.task # "run" THEN qN
                     ELSE qN \o Number(<<Msg("GracefulStop", 90, 15, g, 0), Msg("Stop", 0, 0, 0, 0),
                                        Msg("Delete", 91, 0, 0, 0)>>, nextSn)
    /\ now' = now
    /\ quitAt' = now
    /\ bound' = now + (IF S.timer.on /\ S.timer.until > now THEN S.timer.until - now ELSE 0)
                     + (IF S.afn.on /\ S.afn.until > now THEN S.afn.until - now ELSE 0)
                     + QueuedGraces(qN) + g
    /\ UNCHANGED <<closed, parked, kids, S, viol>>

BeforeQuit == quitAt = -1 /\ (MCSend \/ (DropHandle /\ now' = now)) /\ UNCHANGED <<quitAt, bound>>

QNext ==
    \/ BeforeQuit
    \/ \E g \in QuitGraces : QuitSend(g)
    \/ ((TaskStep \/ Park \/ MCTick) /\ UNCHANGED <<quitAt, bound>>)

QSpec == QInit /\ [][QNext]_qvars
QView == <<MCView, quitAt, bound>>

\* time never passes the bound while the job task is still alive after both sends
QuitBounded == (quitAt >= 0 /\ S.task = "run") => now <= bound
\* once it has ended nothing is running and every ticket is resolved
QuitClean   == (quitAt >= 0 /\ S.task = "ended") => (S.live = {} /\ S.gone)
\* and it does end: at rest after the quit the task is gone
QuitEnds    == (quitAt >= 0 /\ Quiescent /\ NextDeadline = Inf) => S.task # "run"
=============================================================================
