SPECIFICATION MCSpec
CONSTANTS
  Inf = 1000
  Fixes <- AllFixes
  Tracing = FALSE
  MaxOps = 3
  MaxTime = 4
  MaxKids = 2
  Ops <- OpsRaw
  Graces = {0, 2}
  KidClasses <- KidsFaulty
VIEW MCView
INVARIANTS AtMostOneLive
CHECK_DEADLOCK FALSE
