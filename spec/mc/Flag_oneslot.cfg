\* not registered: the pinned tree's single waker slot loses the first of two waiters
SPECIFICATION Spec
CONSTANTS
  Tasks = {1, 2}
  Raisers = {101}
  Recheck = TRUE
  Slots = 1
  Spurious = FALSE
INVARIANTS NoLostWakeup
CHECK_DEADLOCK FALSE
