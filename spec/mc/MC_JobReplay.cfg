SPECIFICATION RSpec
CONSTANTS
  Inf = 1000
  Fixes <- AllFixes
  Tracing = TRUE
  MaxOps = 4
  MaxTime = 8
  MaxKids = 3
  Ops <- OpsAll
  Graces = {0, 2, 3}
  KidClasses <- KidsFaulty
INVARIANT PrintBehaviour
CHECK_DEADLOCK FALSE
