---------------------------- MODULE MC_ProcQuit ----------------------------
(* Model-checking harness for ProcQuit: every configuration of up to MaxJobs jobs, both   *)
(* quit manners, a zero and a non-zero grace period; the clauses of C08 that concern      *)
(* processes as invariants of the states in which nothing more happens.                   *)
EXTENDS ProcQuit

CONSTANTS MaxJobs,
          KnownClasses      \* command classes for which a surviving group member is a recorded finding

VARIABLE st

JobConfigs == { InitJob(w, c, p) : w \in Wraps, c \in Classes, p \in Pres }

MCInit ==
    \E n \in 1..MaxJobs : \E js \in [1..n -> JobConfigs] : \E m \in Manners : \E g \in {0, 1} :
        st = InitState(js, m, g)
MCNext == st' \in Succ(st)
MCSpec == MCInit /\ [][MCNext]_st

AtRest == Succ(st) = {}

\* the quit always completes: the main task ends whatever the commands do
QuitTerminates == AtRest => MainEnds(st)
\* no command survives the shutdown
CommandsGone   == AtRest => NoCommandLeft(st)
\* ... nor, after a graceful quit of a grouped command, the other members of its process group
MembersGone    == AtRest => NoMemberLeft(st)
\* the same, leaving out the recorded findings
MembersGoneButKnown ==
    AtRest => \A j \in DOMAIN st.jobs : st.jobs[j].cls \in KnownClasses \/ NoMemberLeftIn(st, j)
\* a kill is never sent while the grace period is running and the command can still react
NoEarlyKill ==
    \A j \in DOMAIN st.jobs : st.jobs[j].expired => (st.grace = 0 \/ ~LeaderDiesOnSignal(st.jobs[j].cls))
=============================================================================
