SPECIFICATION MCSpec
CONSTANTS
  Inf = 1000
  Tracing = FALSE
  NEvents = 3
  MaxTime = 5
  Classes <- ClassesFlow
  Cap = 2
  ECap = 1
  Throttle0 = 2
VIEW MCView
INVARIANTS Conservation NoEmptyBatch DeliveredAtRest UrgentUnfiltered
CHECK_DEADLOCK FALSE
