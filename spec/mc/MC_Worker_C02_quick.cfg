SPECIFICATION MCSpec
CONSTANTS
  Inf = 1000
  Tracing = FALSE
  NEvents = 3
  MaxTime = 7
  Classes <- ClassesTime
  Cap = 3
  ECap = 1
  Throttle0 = 2
VIEW MCView
INVARIANTS NotBeforeWindow WindowsDisjoint InWindow UrgentFlushes UrgentUnfiltered NoStarvation DeliveredAtRest
CHECK_DEADLOCK FALSE
