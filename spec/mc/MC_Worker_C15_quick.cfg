SPECIFICATION MCSpec
CONSTANTS
  Inf = 1000
  Tracing = FALSE
  NEvents = 3
  MaxTime = 4
  Classes <- ClassesErr
  Cap = 3
  ECap = 1
  Throttle0 = 1
VIEW MCView
INVARIANTS ErrorAtMostOnce ErrorOnlyForErrors ErrorReported CriticalEndsMain OnlyCriticalEndsMain Conservation
CHECK_DEADLOCK FALSE
