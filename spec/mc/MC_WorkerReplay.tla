--------------------------- MODULE MC_WorkerReplay ---------------------------
(***************************************************************************)
(* The other direction of the binding for ActionWorker: behaviours of the  *)
(* SPECIFICATION replayed on a real Watchexec.                             *)
(*                                                                         *)
(* The environment sends one event at a time, at an instant at which       *)
(* nothing else happens (no deadline of the worker or of the error hook is *)
(* due then), so that the real run is deterministic up to the interleaving *)
(* of the worker with the error hook, which are two tasks: their           *)
(* observations are collected separately (obsW, obsH) and compared         *)
(* separately.  tools/workreplay.py turns `sends` into a script for         *)
(* worker_driver and compares the recorded observations one by one, with    *)
(* their times (the debounce arithmetic is exact here).                     *)
(***************************************************************************)
EXTENDS MC_Worker, Json

VARIABLES sends, obsW, obsH, stepAt

rvars == <<wvars, sends, obsW, obsH, stepAt>>

\* events of the replayed universe: no fatal error handlers, no quit (the run goes on to the end)
ClassesReplay == { E(1, "pass", FALSE, 0, "none", 0, "ignore"), E(1, "reject", FALSE, 0, "none", 0, "ignore"),
                   E(1, "error", FALSE, 0, "none", 0, "ignore"), EH(2, "error", FALSE, 0, "none", 0, "ignore", 2),
                   E(3, "reject", FALSE, 0, "none", 0, "ignore"), E(0, "pass", TRUE, 0, "none", 0, "ignore"),
                   E(2, "pass", FALSE, 2, "none", 0, "ignore"), E(1, "pass", FALSE, 1, "throttle", 3, "ignore"),
                   E(1, "error", FALSE, 0, "none", 0, "replace") }

RInit == MCInit /\ sends = <<>> /\ obsW = <<>> /\ obsH = <<>> /\ stepAt = -1

Stamp(out, t) == [i \in DOMAIN out |-> [t |-> t, ev |-> out[i]]]
SentSet == {sends[i].e : i \in DOMAIN sends}

\* the environment: the next event (in the order of their numbers), accepted by the queue at once,
\* at an instant at which nothing else has happened or is due
RSend ==
    /\ ~AnyEnabled(now) /\ stepAt # now
    /\ \E e \in 1..NEvents :
         /\ e \notin SentSet /\ \A f \in 1..(e - 1) : f \in SentSet
         /\ Cardinality(queue) < cap
         /\ queue' = queue \cup {e}
         /\ sends' = Append(sends, [at |-> now, e |-> e])
    /\ stepAt' = now
    /\ UNCHANGED <<now, evs, cap, ecap, pending, errq, W, main, hist, obsW, obsH>>

RWorker ==
    /\ \/ \E e \in queue : RecvStep(e, now, "auto")
       \/ ErrSendComplete(now, "auto")
       \/ TimeoutStep(now, "auto")
       \/ HandlerReturn(now)
    /\ obsW' = obsW \o Stamp(W'.out, now')
    /\ stepAt' = now'
    /\ UNCHANGED <<sends, obsH>>

RHookTake ==
    /\ ErrHookTake(now)
    /\ obsH' = Append(obsH, [t |-> now, ev |-> Ev("err_recv", 0, 0, "", "", 0)])
    /\ stepAt' = now
    /\ UNCHANGED <<sends, obsW>>

RHookCall ==
    /\ ErrHookCall(now)
    /\ obsH' = Append(obsH, [t |-> now, ev |-> HookObs(W.hookCur)])
    /\ stepAt' = now
    /\ UNCHANGED <<sends, obsW>>

RTick == MCTick /\ UNCHANGED <<sends, obsW, obsH, stepAt>>

RNext == RSend \/ RWorker \/ RHookTake \/ RHookCall \/ RTick
RSpec == RInit /\ [][RNext]_rvars

Finished == Cardinality(SentSet) = NEvents /\ ~AnyEnabled(now) /\ NextDeadline = Inf

PrintBehaviour ==
    Finished => PrintT(<<"BEHAVIOUR", ToJson([evs |-> evs, sends |-> sends, obsW |-> obsW, obsH |-> obsH,
                                              throttle |-> Throttle0, cap |-> cap, ecap |-> ecap, endtime |-> now])>>)
=============================================================================
