SPECIFICATION MCSpec
CONSTANTS
  Inf = 1000
  Fixes <- AllFixes
  Tracing = FALSE
  MaxOps = 4
  MaxTime = 4
  MaxKids = 1
  Ops <- OpsOrder
  Graces = {2}
  KidClasses <- KidsBasic
VIEW MCView
INVARIANTS PriorityOrder NothingStuck
CHECK_DEADLOCK FALSE
