SPECIFICATION FairSpec
CONSTANTS
  Tasks = {1, 2, 3}
  Raisers = {101}
  Recheck = TRUE
  Slots = 0
  Spurious = FALSE
INVARIANTS NoLostWakeup
PROPERTIES EveryoneReady
CHECK_DEADLOCK FALSE
