---------------------------- MODULE MC_JobReplay ----------------------------
(***************************************************************************)
(* The other direction of the binding for JobTask: behaviours of the       *)
(* SPECIFICATION replayed on the real job task.                            *)
(*                                                                         *)
(* The environment sends a control only when the task is at rest (so that  *)
(* the real run is deterministic: the driver lets the task settle before   *)
(* each call).  Every behaviour TLC generates (-simulate) carries what the *)
(* environment did (`hist`: which Job method, when, with which grace) and  *)
(* everything the task must be observed to do in answer (`obs`: the        *)
(* concatenated `out` of its steps, with their times).  At the end of a    *)
(* behaviour both are printed; tools/jobreplay.py turns `hist` into a      *)
(* script for job_driver and compares the recorded observations with `obs` *)
(* one by one.                                                             *)
(***************************************************************************)
EXTENDS MC_Job, Json

VARIABLES hist, obs, racy

rvars == <<vars, hist, obs, racy>>

RInit == MCInit /\ hist = <<>> /\ obs = <<>> /\ racy = FALSE

Stamp(out, t) == [i \in DOMAIN out |-> [t |-> t, ev |-> out[i]]]

RSend ==
    /\ Quiescent
    /\ Cardinality(sent) < MaxOps
    /\ now' = now
    /\ \E op \in Ops :
         IF IsGraceful(op)
         THEN \E g \in Graces : /\ Send(op, Cardinality(sent) + 1, 15, g, 0)
                                /\ hist' = Append(hist, [at |-> now, op |-> op, grace |-> g])
         ELSE /\ Send(op, Cardinality(sent) + 1, 15, 0, 0)
              /\ hist' = Append(hist, [at |-> now, op |-> op, grace |-> 0])
    /\ obs' = obs /\ racy' = racy

\* the main select! of the task is not biased: when the child's end and a control (or the timer) are ready
\* together the real task takes either; such behaviours are marked and not replayed
RTask == TaskStep /\ obs' = obs \o Stamp(S'.out, now') /\ hist' = hist
         /\ racy' = (racy \/ (WaitReady(now) /\ Sources(now) # {}))
RTick == MCTick /\ UNCHANGED <<hist, obs, racy>>

RNext == RSend \/ RTask \/ RTick
RSpec == RInit /\ [][RNext]_rvars

\* nothing more can happen: every control has been sent, the task is at rest, no timer or exit is due
Finished == Cardinality(sent) = MaxOps /\ Quiescent /\ NextDeadline = Inf

PrintBehaviour ==
    Finished => PrintT(<<"BEHAVIOUR", ToJson([kids |-> kids, hist |-> hist, obs |-> obs,
                                              pending |-> {id \in sent : ~Resolved(id)}, endtime |-> now, racy |-> racy])>>)
=============================================================================
