SPECIFICATION MCSpec
CONSTANTS
  Paths = {"a", "b", "c"}
  Kinds = {"native", "poll", "poll2"}
  Fixes <- AllFsFixes
  Tracing = FALSE
  MaxChanges = 4
  MaxFail = 1
VIEW MCView
INVARIANTS ConvergedWhenIdle BeliefMatches ReleasedWhenEmpty NothingLost
CHECK_DEADLOCK FALSE
