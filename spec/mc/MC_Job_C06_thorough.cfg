SPECIFICATION MCSpec
CONSTANTS
  Inf = 1000
  Fixes <- AllFixes
  Tracing = FALSE
  MaxOps = 4
  MaxTime = 6
  MaxKids = 2
  Ops <- OpsGraceful
  Graces = {0, 2}
  KidClasses <- KidsGrace
VIEW MCView
INVARIANTS KillAtExpiry ReplacementOnce NoStaleRestart AtMostOneLive
CHECK_DEADLOCK FALSE
