------------------------------ MODULE MC_Worker ------------------------------
(* Bounded environment for ActionWorker and the properties of C01, C02, C15. *)
EXTENDS ActionWorker

CONSTANTS NEvents, MaxTime, Classes, Cap, ECap, Throttle0

EH(prio, verdict, empty, hold, act, arg, onerr, errhold) ==
    [prio |-> prio, verdict |-> verdict, empty |-> empty, hold |-> hold, act |-> act,
     arg |-> arg, onerr |-> onerr, errhold |-> errhold]
E(prio, verdict, empty, hold, act, arg, onerr) == EH(prio, verdict, empty, hold, act, arg, onerr, 0)

\* C01: every tag kind the filter treats differently, handler durations
ClassesFlow == { E(1, "pass", FALSE, 0, "none", 0, "ignore"), E(1, "reject", FALSE, 0, "none", 0, "ignore"),
                 E(1, "error", FALSE, 0, "none", 0, "ignore"), E(3, "reject", FALSE, 0, "none", 0, "ignore"),
                 E(0, "reject", TRUE, 0, "none", 0, "ignore"), E(2, "pass", FALSE, 2, "none", 0, "ignore") }
\* C02: windows, throttle changes, urgent flushes
ClassesTime == { E(1, "pass", FALSE, 0, "none", 0, "ignore"), E(1, "reject", FALSE, 0, "none", 0, "ignore"),
                 E(3, "pass", FALSE, 0, "none", 0, "ignore"), E(1, "pass", FALSE, 1, "throttle", 0, "ignore"),
                 E(2, "pass", FALSE, 0, "throttle", 3, "ignore") }
\* C15: errors and what the error handler does with them
ClassesErr  == { E(1, "pass", FALSE, 0, "none", 0, "ignore"), E(1, "error", FALSE, 0, "none", 0, "ignore"),
                 E(1, "error", FALSE, 0, "none", 0, "elevate"), E(2, "error", FALSE, 0, "none", 0, "critical"),
                 E(1, "pass", FALSE, 2, "none", 0, "ignore"),
                 \* an error handler that takes a while
                 EH(1, "error", FALSE, 0, "none", 0, "ignore", 2),
                 \* ... and one that replaces itself
                 E(1, "error", FALSE, 0, "none", 0, "replace") }

MCInit ==
    /\ now = 0
    /\ evs \in [1..NEvents -> Classes]
    /\ cap = Cap /\ ecap = ECap
    /\ queue = {} /\ pending = {} /\ errq = <<>>
    /\ W = InitW(Throttle0)
    /\ main = "run"
    /\ hist = InitHist

MCSend == \E e \in 1..NEvents : SendStart(e) /\ now' = now
MCSendDone == \E e \in pending : (SendComplete(e) \/ SendFail(e)) /\ now' = now

MCWorker ==
    \/ \E e \in queue : RecvStep(e, now, "auto")
    \/ ErrSendComplete(now, "auto")
    \/ TimeoutStep(now, "auto")
    \/ HandlerReturn(now)
    \/ MainEndsOk
    \/ MainFails
    \/ ErrHookTake(now)
    \/ ErrHookCall(now)

MCTick ==
    /\ ~AnyEnabled(now)
    /\ now < MaxTime
    /\ now' = now + 1
    /\ UNCHANGED <<evs, cap, ecap, queue, pending, errq, W, main, hist>>

MCNext == MCSend \/ MCSendDone \/ MCWorker \/ MCTick
MCSpec == MCInit /\ [][MCNext]_wvars
MCView == <<now, evs, queue, pending, errq, [W EXCEPT !.out = <<>>], main, hist>>

---------------------------------------------------------------------------
InBatches(e) == Cardinality({i \in DOMAIN W.batches : e \in SeqToSet(W.batches[i].ids)})
Occurrences(ids, e) == Cardinality({i \in DOMAIN ids : ids[i] = e})

\* C01
Conservation ==
    /\ \A e \in hist.accepted :
          /\ InBatches(e) + Occurrences(W.set, e) = 1
          /\ \A i \in DOMAIN W.batches : Occurrences(W.batches[i].ids, e) <= 1
    /\ \A e \in hist.refused : InBatches(e) = 0 /\ Occurrences(W.set, e) = 0
    /\ \A e \in queue \cup pending : InBatches(e) = 0 /\ Occurrences(W.set, e) = 0
    /\ \A e \in DOMAIN hist.recvAt : e \in hist.accepted \/ e \in hist.refused
NoEmptyBatch == \A i \in DOMAIN W.batches : W.batches[i].ids # <<>>
\* at rest nothing accepted is left undelivered
DeliveredAtRest ==
    (~AnyEnabled(now) /\ NextDeadline = Inf /\ main = "run" /\ W.pc = "collect") => W.set = <<>>

\* C02
NotBeforeWindow ==
    \A i \in DOMAIN W.batches :
        ~W.batches[i].urgent => W.batches[i].at - W.batches[i].first >= W.batches[i].thr
WindowsDisjoint ==
    \A i \in DOMAIN W.batches : i > 1 => W.batches[i - 1].at <= W.batches[i].first
InWindow ==
    \A i \in DOMAIN W.batches : \A j \in DOMAIN W.batches[i].ids :
        LET r == hist.recvAt[W.batches[i].ids[j]]
        IN  W.batches[i].first <= r /\ r <= W.batches[i].at
UrgentFlushes ==
    \A i \in DOMAIN W.batches :
        W.batches[i].urgent =>
            \E j \in DOMAIN W.batches[i].ids :
                evs[W.batches[i].ids[j]].prio = 3 /\ hist.recvAt[W.batches[i].ids[j]] = W.batches[i].at
UrgentUnfiltered == \A e \in DOMAIN hist.recvAt : evs[e].prio = 3 => e \in hist.accepted
NoStarvation ==
    (main = "run" /\ W.pc = "collect" /\ W.set # <<>>)
        => (now <= W.deadline /\ W.deadline <= W.last + W.maxThr)

\* C15
ErrorAtMostOnce == \A e \in DOMAIN hist.errSeen : hist.errSeen[e] <= 1
ErrorOnlyForErrors == \A e \in DOMAIN hist.errSeen : evs[e].verdict = "error" /\ e \in hist.refused
ErrorReported ==
    (~AnyEnabled(now) /\ main = "run")
        => \A e \in hist.refused : evs[e].verdict = "error" =>
              \/ (e \in DOMAIN hist.errSeen /\ hist.errSeen[e] = 1) \/ W.blockedOn = e
              \/ (e \in SeqToSet(errq) /\ W.hookEnd > now)       \* waiting for a slow handler
CriticalEndsMain ==
    /\ \A e \in DOMAIN hist.errSeen : evs[e].onerr \in {"elevate", "critical"} => main \in {"failing", "err"}
    /\ ~AnyEnabled(now) => main # "failing"
OnlyCriticalEndsMain ==
    main \in {"failing", "err"} => \E e \in DOMAIN hist.errSeen : evs[e].onerr \in {"elevate", "critical"}
=============================================================================
