SPECIFICATION MCSpec
CONSTANTS
  Paths = {"a", "b"}
  Kinds = {"native", "poll", "poll2"}
  Fixes <- AllFsFixes
  Tracing = FALSE
  MaxChanges = 3
  MaxFail = 1
VIEW MCView
INVARIANTS ConvergedWhenIdle BeliefMatches ReleasedWhenEmpty NothingLost
CHECK_DEADLOCK FALSE
