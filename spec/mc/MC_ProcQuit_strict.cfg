\* not registered: shows the recorded finding on the model (MembersGone is violated)
SPECIFICATION MCSpec
CONSTANTS
  MaxJobs = 1
  KnownClasses = {}
INVARIANTS QuitTerminates CommandsGone MembersGone
CHECK_DEADLOCK FALSE
