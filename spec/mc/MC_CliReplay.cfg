SPECIFICATION RSpec
CONSTANTS
  Modes = {"do-nothing", "queue", "restart", "signal"}
  Postpones = {TRUE, FALSE}
  Ds = {2, 3}
  Delays = {0, 3}
  Gs = {3, 5}
  MaxChanges = 4
  MaxTime = 18
  WaiterAtomic = TRUE
  Inf = 1000
  Classes <- ClassesReplay
INVARIANT PrintBehaviour
CHECK_DEADLOCK FALSE
