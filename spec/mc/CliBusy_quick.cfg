SPECIFICATION Spec
CONSTANTS
  Modes = {"do-nothing", "queue", "restart", "signal"}
  Postpones = {TRUE, FALSE}
  Ds = {1}
  Delays = {0, 2}
  Gs = {2}
  MaxChanges = 3
  MaxTime = 9
  WaiterAtomic = TRUE
  Inf = 1000
INVARIANTS Freshness FirstRun PostponedWaits DoNothingInert SignalOnlySignals QueueInert OneRunPerBatch KillAtTimeout QueuedHasWaiter
CHECK_DEADLOCK FALSE
