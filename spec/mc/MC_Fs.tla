-------------------------------- MODULE MC_Fs --------------------------------
(* Bounded environment for FsWorker and the properties of C13. *)
EXTENDS FsWorker

CONSTANTS MaxChanges, MaxFail

MCInit ==
    /\ cfgPaths \in SUBSET Paths
    /\ cfgKind = "native"
    /\ ver = 0
    /\ failWatch \in {S \in SUBSET Paths : Cardinality(S) <= MaxFail}
    /\ failUnwatch \in {S \in SUBSET Paths : Cardinality(S) <= MaxFail}
    /\ F = InitF
    /\ errs = <<>>

Env ==
    /\ ver < MaxChanges
    /\ \/ \E S \in SUBSET Paths : SetPaths(S)
       \/ \E k \in Kinds : SetKind(k)
       \/ OtherChange

MCNext == Env \/ (WorkerStep /\ UNCHANGED <<>>)
MCSpec == MCInit /\ [][MCNext]_fvars
MCView == <<cfgPaths, cfgKind, ver, failWatch, failUnwatch, [F EXCEPT !.out = <<>>, !.created = 0], Len(errs)>>

\* C13: whenever the worker is waiting with nothing signalled that it has not acted upon, the
\* watcher is the configured one with exactly the configured paths
ConvergedWhenIdle == WorkerIdle => Converged
\* the worker never believes something different from what the watcher has
BeliefMatches == (F.pc \in {"await", "next"} /\ F.watcher.on) => F.pathset = F.watcher.reg
\* an empty set releases the watcher
ReleasedWhenEmpty == (WorkerIdle /\ cfgPaths = {}) => ~F.watcher.on
\* a change made while the worker is busy is never lost: if it is idle it has seen every change
NothingLost == WorkerIdle => ("change_counter" \in Fixes => F.seen = ver)
=============================================================================
