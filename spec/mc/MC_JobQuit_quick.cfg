SPECIFICATION QSpec
CONSTANTS
  Inf = 1000
  Fixes <- AllFixes
  Tracing = FALSE
  MaxOps = 2
  MaxTime = 8
  MaxKids = 2
  Ops <- OpsAll
  Graces = {0, 2}
  KidClasses <- KidsGrace
  QuitGraces = {0, 2}
VIEW QView
INVARIANTS QuitBounded QuitClean QuitEnds NoPanic
CHECK_DEADLOCK FALSE
