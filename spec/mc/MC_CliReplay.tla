---------------------------- MODULE MC_CliReplay ----------------------------
(***************************************************************************)
(* The other direction of the binding for CliBusy: behaviours of the       *)
(* SPECIFICATION replayed on the CLI's real action logic (cli_driver: the  *)
(* real make_config on a real Watchexec, simulated commands, virtual       *)
(* time).                                                                   *)
(*                                                                         *)
(* The environment makes a change only at an instant at which nothing else *)
(* has happened or is due.  What the command does (how long it runs, how   *)
(* it reacts to the stop signal) is chosen by the specification at each    *)
(* spawn and handed to the driver as the list of simulated children.       *)
(* Orders that the real program does not determine - two timers of the     *)
(* same instant (the debounce window, the command's exit, the stop         *)
(* timeout), or a control arriving in the instant the command ends - make  *)
(* a behaviour `racy`; tools/clireplay.py replays the others and compares  *)
(* the observations (handler calls, spawns, signals, kills, collected      *)
(* exits) one by one, with their times.                                    *)
(***************************************************************************)
EXTENDS CliBusy, Json

VARIABLES sends, obs, kids, racy, stepAt

rvars == <<cvars, sends, obs, kids, racy, stepAt>>

\* commands of the replayed universe
ClassesReplay == {C(1, Inf), C(4, Inf), C(Inf, Inf), C(Inf, 1), C(Inf, 5), C(7, 2)}

RInit == Init /\ sends = <<>> /\ obs = <<>> /\ kids = <<>> /\ racy = FALSE /\ stepAt = -1

\* how many independent sources of a step are due in this instant
TimersDue ==
      (IF windowEnd # -1 /\ now >= windowEnd THEN 1 ELSE 0)
    + (IF run.alive /\ now >= run.exitAt /\ ~Sleeping THEN 1 ELSE 0)
    + (IF timer # -1 /\ now >= timer /\ run.alive /\ ~Sleeping THEN 1 ELSE 0)
    + (IF Delay > 0 /\ sleepUntil = now THEN 1 ELSE 0)          \* a --delay-run sleep ends
\* the job task has something to do (on the single-threaded runtime of the driver the waiter task only
\* gets to run when it has not)
JobDue == (timer = -1 /\ jobq # <<>> /\ ~Sleeping) \/ (waiter = "sent" /\ ~Sleeping)
TaskDue == JobDue \/ waiter \in {"spawned", "woken", "resetting"}
\* the end of the command racing anything else
Racy == TimersDue >= 2 \/ (TaskDue /\ run.alive /\ now >= run.exitAt /\ ~Sleeping)
             \/ (TaskDue /\ timer # -1 /\ now >= timer /\ run.alive /\ ~Sleeping)

Obs(kind) == [t |-> now, ev |-> kind]

\* what the step just taken lets an observer see, in the order the real program produces it
Seen ==
    LET hc == IF hist'.batches # hist.batches THEN <<Obs("handler")>> ELSE <<>>
        sg == IF hist'.signals # hist.signals THEN <<Obs("signal")>> ELSE <<>>
        kl == IF hist'.kills # hist.kills THEN <<Obs("kill")>> ELSE <<>>
        en == IF run.alive /\ ~run'.alive THEN <<Obs("end")>> ELSE <<>>
        sp == IF hist'.spawns # hist.spawns THEN <<Obs("spawn")>> ELSE <<>>
    IN  hc \o sg \o kl \o en \o sp

RChange ==
    /\ ~Enabled0 /\ stepAt # now
    /\ Change
    /\ sends' = Append(sends, now)
    /\ stepAt' = now
    /\ UNCHANGED <<obs, kids, racy>>

ExitDue == (run.alive /\ now >= run.exitAt /\ ~Sleeping) \/ (timer # -1 /\ now >= timer /\ run.alive /\ ~Sleeping)
RStep ==
    /\ \/ HandlerFire \/ JobStep \/ JobToWait \/ ChildExit \/ TimerFire
       \/ (~JobDue /\ ~ExitDue /\ (WaiterSend \/ WaiterStart \/ WaiterReset))
    /\ racy' = (racy \/ Racy)
    /\ obs' = obs \o Seen
    /\ kids' = IF hist'.spawns # hist.spawns
               THEN Append(kids, [self |-> IF run'.exitAt = Inf THEN Inf ELSE run'.exitAt - now, sigd |-> run'.sigd])
               ELSE kids
    /\ stepAt' = now
    /\ UNCHANGED sends

RTick == Tick /\ UNCHANGED <<sends, obs, kids, racy, stepAt>>

RNext == RChange \/ RStep \/ RTick
RSpec == RInit /\ [][RNext]_rvars

Finished == now = MaxTime /\ ~Enabled0

PrintBehaviour ==
    Finished => PrintT(<<"BEHAVIOUR", ToJson([mode |-> Mode, postpone |-> Postpone, D |-> D, G |-> G, delay |-> Delay,
                                              sends |-> sends, kids |-> kids, obs |-> obs, racy |-> racy,
                                              endtime |-> now])>>)
=============================================================================
