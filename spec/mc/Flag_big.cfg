SPECIFICATION Spec
CONSTANTS
  Tasks = {1, 2, 3, 4}
  Raisers = {101, 102}
  Recheck = TRUE
  Slots = 0
  Spurious = TRUE
INVARIANTS NoLostWakeup ReadyMeansRaised TypeOK
CHECK_DEADLOCK FALSE
