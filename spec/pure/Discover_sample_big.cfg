INIT Init
NEXT Next
CONSTANTS
  Family = "sample"
  PrefilterChildren = FALSE
  Sample = 8000
INVARIANTS OrderIndependent NeverInsidePruned Emit
CHECK_DEADLOCK FALSE
