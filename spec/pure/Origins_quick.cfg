INIT Init
NEXT Next
CONSTANTS
  Depth = 3
  MaxPerLevel = 1
  Family = "chains"
INVARIANTS WalkIsDeclarative OnChain TypesPartitioned Emit
CHECK_DEADLOCK FALSE
