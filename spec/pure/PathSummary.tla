----------------------------- MODULE PathSummary -----------------------------
(***************************************************************************)
(* C17: the path summaries handed to commands are faithful.                *)
(*                                                                         *)
(* Paths are sequences of components; an event is a sequence of (path,     *)
(* is-directory) pairs and a sequence of filesystem kind classes.  The     *)
(* environment summary is defined declaratively: the common path is the    *)
(* longest common prefix of the "trunks" (a directory itself, the parent   *)
(* of anything else) of all pathed events; each variable holds the SET of  *)
(* suffixes of the paths of the events carrying a kind of its class;       *)
(* joining the common path with a suffix gives the path back (JoinBack,    *)
(* checked by TLC).  The line format is the sequence of (simple kind,      *)
(* path) pairs in event order.  Byte-sorting and the separator are checked *)
(* on the real output by the comparison tool.                              *)
(***************************************************************************)
EXTENDS Integers, Sequences, FiniteSets, TLC, Json, Randomization

CONSTANTS Family, Sample

P(comps, dir) == [comps |-> comps, dir |-> dir]
PathPool == { P(<<"r">>, TRUE), P(<<"r", "a">>, TRUE), P(<<"r", "a", "f">>, FALSE), P(<<"r", "a", "g">>, FALSE),
              P(<<"r", "a-b", "f">>, FALSE), P(<<"r", "b", "f">>, FALSE), P(<<"q", "f">>, FALSE),
              P(<<"r", "a", "sub", "f">>, FALSE) }

\* kind classes as the summary groups them; the harness picks a concrete FileEventKind of the class
Classes == {"WRITTEN", "META_CHANGED", "REMOVED", "CREATED", "RENAMED", "OTHERWISE_CHANGED",
            "WRITTEN_BY_CLOSE", "OTHERWISE_ACCESS"}
VarOf(k) == CASE k = "WRITTEN_BY_CLOSE" -> "WRITTEN" [] k = "OTHERWISE_ACCESS" -> "OTHERWISE_CHANGED" [] OTHER -> k
SimpleOf(k) ==
    CASE k \in {"WRITTEN", "META_CHANGED", "RENAMED"} -> "modify"
      [] k = "REMOVED" -> "remove" [] k = "CREATED" -> "create"
      [] k \in {"WRITTEN_BY_CLOSE", "OTHERWISE_ACCESS"} -> "access"
      [] OTHER -> "other"

E(paths, kinds) == [paths |-> paths, kinds |-> kinds]

PathSeqs == {<<>>} \cup {<<p>> : p \in PathPool} \cup {<<p, q>> : p \in PathPool, q \in PathPool}
KindSeqs == {<<>>} \cup {<<k>> : k \in Classes} \cup {<<k, j>> : k \in Classes, j \in Classes}

RndEvent(i) == E(RandomElement(PathSeqs), RandomElement(KindSeqs))
Universe ==
    CASE Family = "single" -> {<<E(ps, ks)>> : ps \in PathSeqs, ks \in KindSeqs}
      [] Family = "sample" -> {<<RndEvent(i), RndEvent(i + 1)>> : i \in 1..Sample}
                              \cup {<<RndEvent(i), RndEvent(i + 1), RndEvent(i + 2)>> : i \in 1..Sample}

---------------------------------------------------------------------------
Front(s) == SubSeq(s, 1, Len(s) - 1)
Trunk(p) == IF p.dir THEN p.comps ELSE Front(p.comps)
IsPrefix(a, b) == Len(a) <= Len(b) /\ SubSeq(b, 1, Len(a)) = a

AllPaths(batch) == UNION {{batch[i].paths[j] : j \in DOMAIN batch[i].paths} : i \in DOMAIN batch}
Trunks(batch) == {Trunk(p) : p \in AllPaths(batch)}

\* longest common prefix of a non-empty set of sequences
CommonOf(S) ==
    LET any == CHOOSE s \in S : TRUE
        ok(n) == \A s \in S : Len(s) >= n /\ SubSeq(s, 1, n) = SubSeq(any, 1, n)
        best == CHOOSE n \in 0..Len(any) : ok(n) /\ \A m \in 0..Len(any) : ok(m) => m <= n
    IN  SubSeq(any, 1, best)

Common(batch) == IF AllPaths(batch) = {} THEN <<"none">> ELSE CommonOf(Trunks(batch))
Suffix(p, c) == SubSeq(p.comps, Len(c) + 1, Len(p.comps))

Vars == {VarOf(k) : k \in Classes}
Entries(batch, v) ==
    LET c == Common(batch) IN
    UNION {IF \E x \in DOMAIN batch[i].kinds : VarOf(batch[i].kinds[x]) = v
           THEN {Suffix(batch[i].paths[j], c) : j \in DOMAIN batch[i].paths} ELSE {} : i \in DOMAIN batch}

\* the line-based format: one line per (path, kind tag) of each event, in order; "other" if no kind
RECURSIVE LinesOf(_, _)
LinesOf(batch, i) ==
    IF i > Len(batch) THEN <<>>
    ELSE LET e == batch[i]
             perPath(p) == IF e.kinds = <<>> THEN <<[k |-> "other", path |-> p.comps]>>
                           ELSE [x \in DOMAIN e.kinds |-> [k |-> SimpleOf(e.kinds[x]), path |-> p.comps]]
             RECURSIVE Cat(_)
             Cat(j) == IF j > Len(e.paths) THEN <<>> ELSE perPath(e.paths[j]) \o Cat(j + 1)
         IN  Cat(1) \o LinesOf(batch, i + 1)

VARIABLES batch, done
Init == batch \in Universe /\ done = FALSE
Next == ~done /\ done' = TRUE /\ UNCHANGED batch

\* joining the common path with an entry gives back a path of an event of that kind
JoinBack ==
    \A v \in Vars : \A s \in Entries(batch, v) :
        \E i \in DOMAIN batch : \E j \in DOMAIN batch[i].paths :
            /\ batch[i].paths[j].comps = Common(batch) \o s
            /\ \E x \in DOMAIN batch[i].kinds : VarOf(batch[i].kinds[x]) = v
\* the common path is a directory above every path
CommonIsAbove ==
    AllPaths(batch) # {} => \A p \in AllPaths(batch) : IsPrefix(Common(batch), p.comps)
\* events without paths or without kinds contribute nothing
Silent ==
    \A v \in Vars : Entries(batch, v) # {} =>
        \E i \in DOMAIN batch : batch[i].paths # <<>> /\ batch[i].kinds # <<>>

Emit ==
    done => PrintT(<<"CASE", ToJson([
        batch  |-> batch,
        common |-> Common(batch),
        vars   |-> [v \in Vars |-> Entries(batch, v)],
        lines  |-> LinesOf(batch, 1)])>>)
=============================================================================
