INIT Init
NEXT Next
CONSTANTS
  Depth = 1
  MaxPerLevel = 1
  Family = "table"
INVARIANTS WalkIsDeclarative OnChain TypesPartitioned Emit
CHECK_DEADLOCK FALSE
