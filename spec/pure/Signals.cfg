INIT Init
NEXT Next
INVARIANTS SpellingsAgree Emit
CHECK_DEADLOCK FALSE
