INIT Init
NEXT Build
CONSTANTS
  Tokens = {"T1", "T2", "T3"}
  MaxArgs = 3
  MaxOpts = 2
INVARIANTS AssemblyIsArgv LengthPreserved Emit
CHECK_DEADLOCK FALSE
