INIT Init
NEXT Next
CONSTANTS
  Family = "single"
  Sample = 1500
INVARIANTS JoinBack CommonIsAbove Silent Emit
CHECK_DEADLOCK FALSE
