INIT Init
NEXT Next
CONSTANTS
  Family = "sample"
  Sample = 1500
INVARIANTS Scoping NegationLocal OrderIrrelevant Emit
CHECK_DEADLOCK FALSE
