INIT Init
NEXT Next
CONSTANTS
  Family = "sample"
  Sample = 15000
INVARIANTS JoinBack CommonIsAbove Silent Emit
CHECK_DEADLOCK FALSE
