--------------------------- MODULE CliIgnoreFlags ---------------------------
(***************************************************************************)
(* C12: explicit CLI filters are honoured under every mix of the six       *)
(* ignore-source flags, and those flags remove exactly the sources they    *)
(* name.                                                                   *)
(*                                                                         *)
(* Sources of ignore patterns a project can have, the documented meaning   *)
(* of each flag as the set of sources it removes (the two shorthands are   *)
(* expanded by a Normalise step, as the CLI does), and the explicit        *)
(* options, which no flag may touch.  Every (flag set, explicit option)    *)
(* pair is one case: the expected verdict of one probe event per source    *)
(* and per option is computed here and compared with the real              *)
(* argv -> Args -> WatchexecFilterer -> check_event.                       *)
(***************************************************************************)
EXTENDS Integers, Sequences, FiniteSets, TLC, Json

Sources == {"vcs_project", "generic_project", "vcs_global", "app_global", "builtin"}

Flags == {"no-vcs-ignore", "no-project-ignore", "no-global-ignore", "no-default-ignore",
          "no-discover-ignore", "ignore-nothing"}

Options == {"none", "ignore", "ignore-file", "filter", "filter-file", "exts", "fs-events"}

\* shorthand flags, as documented
Implies(f) ==
    CASE f = "ignore-nothing"     -> {"no-discover-ignore", "no-default-ignore"}
      [] f = "no-discover-ignore" -> {"no-global-ignore", "no-vcs-ignore", "no-project-ignore"}
      [] OTHER -> {}

\* what each (basic) flag removes, as documented in its help text
Removes(f) ==
    CASE f = "no-vcs-ignore"     -> {"vcs_project", "vcs_global"}
      [] f = "no-project-ignore" -> {"vcs_project", "generic_project"}
      [] f = "no-global-ignore"  -> {"vcs_global", "app_global"}
      [] f = "no-default-ignore" -> {"builtin"}
      [] OTHER -> {}

\* wf: one of the probe files (the one the project's VCS ignore file names) is also given as a watched
\* FILE (-w FILE): an explicitly watched file is let through whatever ignores and filters say, and that
\* too must not depend on the flags
\* ow: a second directory, outside the project origin, is watched as well (-w DIR); the same probes are made
\* there: the project's own ignore files say nothing about it, the global and built-in sources and the
\* explicit options apply there as they do inside
VARIABLES given, eff, opt, wf, ow, done

Init == given \in SUBSET Flags /\ eff = given /\ opt \in Options /\ wf \in BOOLEAN /\ ow \in BOOLEAN /\ done = FALSE

\* one round of shorthand expansion
Normalise ==
    /\ ~done
    /\ \E f \in eff : ~(Implies(f) \subseteq eff)
    /\ eff' = eff \cup UNION {Implies(f) : f \in eff}
    /\ UNCHANGED <<given, opt, wf, ow, done>>

Finish ==
    /\ ~done
    /\ \A f \in eff : Implies(f) \subseteq eff
    /\ done' = TRUE
    /\ UNCHANGED <<given, eff, opt, wf, ow>>

Next == Normalise \/ Finish

Active(src) == ~\E f \in eff : src \in Removes(f)

\* Probes.  Each source ignores exactly one file name; "plain.txt" is matched by nothing.
SourceProbe(src) == "by_" \o src
\* verdict of the probe event: TRUE = passes the filter
PassSource(src) ==
    IF wf /\ src = "vcs_project" THEN TRUE                       \* the explicitly watched file
    ELSE CASE opt \in {"filter", "filter-file", "exts"} -> FALSE      \* does not match the filter
           [] OTHER -> ~Active(src)

ProjectSources == {"vcs_project", "generic_project"}
PassOutside(src) ==
    CASE opt \in {"filter", "filter-file", "exts"} -> FALSE
      [] src \in ProjectSources -> TRUE          \* an ignore file says nothing outside its directory
      [] OTHER -> ~Active(src)

Explicit ==
    CASE opt = "ignore" -> FALSE
      [] opt = "ignore-file" -> FALSE
      [] OTHER -> TRUE

Expect ==
    [sources |-> [s \in Sources |-> PassSource(s)],
     outside |-> IF ow THEN [s \in Sources \cup {"plain", "explicit"} |->
                                CASE s = "plain" -> opt \notin {"filter", "filter-file", "exts"}
                                  [] s = "explicit" -> Explicit
                                  [] OTHER -> PassOutside(s)]
                 ELSE [s \in {} |-> TRUE],
     plain   |-> opt \notin {"filter", "filter-file", "exts"},
     \* the probe named by the explicit option itself
     explicit |-> CASE opt = "ignore" -> FALSE
                    [] opt = "ignore-file" -> FALSE
                    [] opt = "filter" -> TRUE
                    [] opt = "filter-file" -> TRUE
                    [] opt = "exts" -> TRUE
                    [] OTHER -> TRUE,
     \* --fs-events create: a create event passes, a data modification does not
     create  |-> opt \notin {"filter", "filter-file", "exts"},
     modify  |-> opt \notin {"filter", "filter-file", "exts", "fs-events"}]

\* The flags remove exactly the sources they name ...
RemovesExactly ==
    done => \A s \in Sources :
        Active(s) <=> ~\E f \in eff : s \in Removes(f)
\* ... expansion only ever adds flags, and the given flags stay
Monotone == given \subseteq eff
\* ... and the shorthands mean what they say
ShorthandMeaning ==
    done =>
        /\ "ignore-nothing" \in given => \A s \in Sources : ~Active(s)
        /\ "no-discover-ignore" \in given => \A s \in Sources \ {"builtin"} : ~Active(s)
        /\ (given \subseteq {"no-default-ignore"}) => \A s \in Sources \ {"builtin"} : Active(s)

\* outside the origin only the global and built-in sources and the explicit option decide
OutsideIgnoresProjectFlags ==
    done /\ ow => \A s \in ProjectSources : PassOutside(s) = (opt \notin {"filter", "filter-file", "exts"})

Emit ==
    done => PrintT(<<"CASE", ToJson([flags |-> given, opt |-> opt, watchfile |-> wf, outside |-> ow, expect |-> Expect])>>)
=============================================================================
