INIT Init
NEXT Next
CONSTANTS
  Family = "one"
  Sample = 1500
INVARIANTS EmptyPassesAll NoPathPasses WhitelistPasses IgnoreBeatsFilter IgnoreMonotone Emit
CHECK_DEADLOCK FALSE
