INIT Init
NEXT Next
CONSTANTS
  Family = "single"
  Sample = 1500
INVARIANTS Scoping NegationLocal OrderIrrelevant Emit
CHECK_DEADLOCK FALSE
