INIT Init
NEXT Next
CONSTANTS
  Family = "origin"
  PrefilterChildren = FALSE
  Sample = 800
INVARIANTS OrderIndependent NeverInsidePruned Emit
CHECK_DEADLOCK FALSE
