INIT Init
NEXT Next
CONSTANT Family = "decode"
INVARIANTS RoundTrip NeverAnotherKind Total OwnDocsKnown Emit
CHECK_DEADLOCK FALSE
