INIT TypeInit
NEXT TypeNext
CONSTANTS
  Depth = 1
  MaxPerLevel = 1
  Family = "types"
INVARIANTS TypeCase
CHECK_DEADLOCK FALSE
