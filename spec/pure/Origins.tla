------------------------------ MODULE Origins ------------------------------
(***************************************************************************)
(* C20: project origins are exactly the marked ancestors.                  *)
(*                                                                         *)
(* Reference: the marker table (name, node type) |-> project types, as the *)
(* crate documents it; IsOrigin and TypesOf over it; the partition of the  *)
(* project types into version control and software suite.  The walk of     *)
(* origins() (the given path, then each parent) is modelled as a small     *)
(* state machine whose result must equal the declarative definition; each  *)
(* terminal state is one case for the real code, printed with its expected *)
(* answer.                                                                 *)
(***************************************************************************)
EXTENDS Integers, Sequences, FiniteSets, TLC, Json

CONSTANTS Depth,        \* length of the directory chain below the scratch root
          MaxPerLevel,  \* entries placed in one directory
          Family        \* "table": every marker alone, right and wrong node type; "chains"

M(name, kind, types) == [name |-> name, kind |-> kind, types |-> types]

Table == {
    M("_darcs", "dir", {"Darcs"}),
    M(".bzr", "dir", {"Bazaar"}),
    M(".fossil-settings", "dir", {"Fossil"}),
    M(".git", "dir", {"Git"}),
    M(".github", "dir", {}),
    M(".hg", "dir", {"Mercurial"}),
    M(".svn", "dir", {"Subversion"}),
    M(".asf.yaml", "file", {}),
    M(".bzrignore", "file", {"Bazaar"}),
    M(".codecov.yml", "file", {}),
    M(".ctags", "file", {"C"}),
    M(".editorconfig", "file", {}),
    M(".git", "file", {"Git"}),
    M(".gitattributes", "file", {"Git"}),
    M(".gitmodules", "file", {"Git"}),
    M(".hgignore", "file", {"Mercurial"}),
    M(".hgtags", "file", {"Mercurial"}),
    M(".perltidyrc", "file", {"Perl"}),
    M(".travis.yml", "file", {}),
    M("appveyor.yml", "file", {}),
    M("build.gradle", "file", {"Gradle"}),
    M("build.properties", "file", {}),
    M("build.xml", "file", {}),
    M("Cargo.toml", "file", {"Cargo"}),
    M("Cargo.lock", "file", {}),
    M("cgmanifest.json", "file", {"JavaScript"}),
    M("CMakeLists.txt", "file", {}),
    M("composer.json", "file", {"PHP"}),
    M("COPYING", "file", {}),
    M("docker-compose.yml", "file", {}),
    M("Dockerfile", "file", {"Docker"}),
    M("Gemfile", "file", {"Bundler"}),
    M("LICENSE.txt", "file", {}),
    M("LICENSE", "file", {}),
    M("Makefile.am", "file", {}),
    M("Makefile.pl", "file", {}),
    M("Makefile.PL", "file", {"Perl"}),
    M("Makefile", "file", {}),
    M("mix.exs", "file", {"Elixir"}),
    M("moonshine-dependencies.xml", "file", {}),
    M("package.json", "file", {"JavaScript"}),
    M("package-lock.json", "file", {}),
    M("pnpm-lock.yaml", "file", {}),
    M("yarn.lock", "file", {}),
    M("pom.xml", "file", {"Maven"}),
    M("project.clj", "file", {"Leiningen"}),
    M("requirements.txt", "file", {"Pip"}),
    M("v.mod", "file", {"V"}),
    M("CONTRIBUTING.md", "file", {}),
    M("go.mod", "file", {"Go"}),
    M("go.sum", "file", {"Go"}),
    M("Pipfile", "file", {"Pip"}),
    M("build.zig", "file", {"Zig"})
}

Vcs  == {"Bazaar", "Darcs", "Fossil", "Git", "Mercurial", "Pijul", "Subversion"}
Soft == {"Bundler", "C", "Cargo", "Docker", "Elixir", "Go", "Gradle", "JavaScript",
         "Leiningen", "Maven", "Perl", "PHP", "Pip", "V", "Zig"}
AllTypes == Vcs \cup Soft

\* every type the table can report is a known type, and the two categories partition them
ASSUME UNION {m.types : m \in Table} \subseteq AllTypes
ASSUME Vcs \cap Soft = {}

P(name, kind) == [name |-> name, kind |-> kind]
Other(kind) == IF kind = "dir" THEN "file" ELSE "dir"

IsOrigin(pl)  == \E p \in pl : \E m \in Table : m.name = p.name /\ m.kind = p.kind
TypesOf(pl)   == UNION {m.types : m \in {m \in Table : \E p \in pl : m.name = p.name /\ m.kind = p.kind}}

\* placements used in chains: right type, wrong type, origin-only markers, non-markers,
\* a name that is a marker both as file and as directory
Rep == { P(".git", "dir"), P(".git", "file"), P("Cargo.toml", "file"), P("Cargo.toml", "dir"),
         P("go.mod", "file"), P(".github", "dir"), P(".github", "file"), P("LICENSE", "file"),
         P(".hgignore", "file"), P("_darcs", "file"), P("notes.txt", "file"), P("src", "dir"),
         P("build.zig", "file"), P("Makefile.pl", "file") }

NamesDistinct(pl) == \A p, q \in pl : p.name = q.name => p = q

Placements ==
    IF Family = "table"
    THEN {{P(m.name, m.kind)} : m \in Table} \cup {{P(m.name, Other(m.kind))} : m \in Table}
         \cup {{}, {P("notes.txt", "file")}, {P("src", "dir")}}
    ELSE IF Family = "pairs"      \* two markers of the table in one directory: the types add up
    THEN {pl \in {{P(a.name, a.kind), P(b.name, b.kind)} : a \in {m \in Table : m.types # {}}, b \in Table} :
             NamesDistinct(pl)}
    ELSE {pl \in SUBSET Rep : Cardinality(pl) <= MaxPerLevel /\ NamesDistinct(pl)}

VARIABLES chain, start, cur, acc

Init ==
    /\ chain \in [1..Depth -> Placements]
    /\ start \in 1..Depth
    /\ cur = start
    /\ acc = {}

\* origins(): check the current directory, then move to its parent
Next ==
    /\ cur >= 1
    /\ acc' = IF IsOrigin(chain[cur]) THEN acc \cup {cur} ELSE acc
    /\ cur' = cur - 1
    /\ UNCHANGED <<chain, start>>

Expected == {i \in 1..start : IsOrigin(chain[i])}

\* the walk finds exactly the marked directories on the chain, never one outside 1..start
WalkIsDeclarative == cur = 0 => acc = Expected
OnChain == acc \subseteq cur+1..start

\* every reported type belongs to exactly one category
TypesPartitioned == \A i \in 1..Depth : \A t \in TypesOf(chain[i]) : (t \in Vcs) # (t \in Soft)

Emit ==
    cur = 0 =>
        PrintT(<<"CASE", ToJson([chain |-> chain, start |-> start,
                                 origins |-> acc,
                                 types |-> [i \in 1..Depth |-> TypesOf(chain[i])]])>>)

\* the classification itself, as one case (Family = "types")
TypeInit == chain = <<>> /\ start = 0 /\ cur = 0 /\ acc = {}
TypeNext == FALSE /\ UNCHANGED <<chain, start, cur, acc>>
TypeCase == PrintT(<<"CASE", ToJson([vcs |-> Vcs, soft |-> Soft])>>)
=============================================================================
