------------------------------- MODULE Signals -------------------------------
(***************************************************************************)
(* C19: signal names and exit statuses convert consistently.               *)
(*                                                                         *)
(* The platform's signal table (Linux numbering), the seven first-class    *)
(* signals, the three spellings of a signal (short name, SIG-prefixed      *)
(* name, number), the Windows control names and their precedence over the  *)
(* unix short names, and the decoding of a wait status into the portable   *)
(* process-end form.  Every row is one case for the real code.             *)
(***************************************************************************)
EXTENDS Integers, Sequences, FiniteSets, TLC, Json

Name(n) ==
    CASE n = 1 -> "HUP" [] n = 2 -> "INT" [] n = 3 -> "QUIT" [] n = 4 -> "ILL" [] n = 5 -> "TRAP"
      [] n = 6 -> "ABRT" [] n = 7 -> "BUS" [] n = 8 -> "FPE" [] n = 9 -> "KILL" [] n = 10 -> "USR1"
      [] n = 11 -> "SEGV" [] n = 12 -> "USR2" [] n = 13 -> "PIPE" [] n = 14 -> "ALRM" [] n = 15 -> "TERM"
      [] n = 16 -> "STKFLT" [] n = 17 -> "CHLD" [] n = 18 -> "CONT" [] n = 19 -> "STOP" [] n = 20 -> "TSTP"
      [] n = 21 -> "TTIN" [] n = 22 -> "TTOU" [] n = 23 -> "URG" [] n = 24 -> "XCPU" [] n = 25 -> "XFSZ"
      [] n = 26 -> "VTALRM" [] n = 27 -> "PROF" [] n = 28 -> "WINCH" [] n = 29 -> "IO" [] n = 30 -> "PWR"
      [] n = 31 -> "SYS"

Sigs == 1..31
ASSUME \A a, b \in Sigs : Name(a) = Name(b) => a = b

FirstClass == [Hangup |-> 1, ForceStop |-> 9, Interrupt |-> 2, Quit |-> 3, Terminate |-> 15,
               User1 |-> 10, User2 |-> 12]

\* Windows control names; they are tried before the unix names
Control == [x \in {"CTRL-CLOSE", "CTRL+CLOSE", "CLOSE"} |-> 1]
        @@ [x \in {"CTRL-BREAK", "CTRL+BREAK", "BREAK"} |-> 15]
        @@ [x \in {"CTRL-C", "CTRL+C", "C"} |-> 2]
        @@ [x \in {"KILL", "SIGKILL", "FORCE-STOP", "STOP"} |-> 9]

Spelling(n, sp) ==
    CASE sp = "short" -> Name(n) [] sp = "prefixed" -> "SIG" \o Name(n) [] sp = "number" -> ToString(n)

\* what a text parses to: the control names win, then the unix table
Parses(text, n) == IF text \in DOMAIN Control THEN Control[text] ELSE n

\* the documented exception is exactly STOP (and it is the only clash)
ASSUME \A n \in Sigs : \A sp \in {"short", "prefixed"} :
          Spelling(n, sp) \in DOMAIN Control => (Control[Spelling(n, sp)] = n \/ Spelling(n, sp) = "STOP")

\* some other signal, for the right-hand side of a mapping
MapTo(n) == ((n * 7) % 31) + 1

Cases ==
       {[kind |-> "parse", text |-> Spelling(n, sp), lettercase |-> c, expect |-> Parses(Spelling(n, sp), n)] :
            n \in Sigs, sp \in {"short", "prefixed", "number"}, c \in {"upper", "lower", "mixed"}}
  \cup {[kind |-> "parse", text |-> x, lettercase |-> c, expect |-> Control[x]] :
            x \in DOMAIN Control, c \in {"upper", "lower", "mixed"}}
  \* --map-signal FROM:TO through the command line's own parser: both sides are signal texts, an empty TO
  \* (-1) discards the signal
  \cup {[kind |-> "map", from |-> Spelling(n, sp), to |-> Spelling(MapTo(n), sp2), lettercase |-> c,
         expect |-> <<Parses(Spelling(n, sp), n), Parses(Spelling(MapTo(n), sp2), MapTo(n))>>] :
            n \in Sigs, sp \in {"short", "prefixed", "number"}, sp2 \in {"short", "prefixed", "number"}, c \in {"upper", "lower"}}
  \cup {[kind |-> "map", from |-> Spelling(n, sp), to |-> "", lettercase |-> "upper",
         expect |-> <<Parses(Spelling(n, sp), n), -1>>] : n \in Sigs, sp \in {"short", "prefixed", "number"}}
  \cup {[kind |-> "display_custom", n |-> n, expect |-> n] : n \in Sigs}
  \cup {[kind |-> "display_first", name |-> f, expect |-> FirstClass[f]] : f \in DOMAIN FirstClass}
  \cup {[kind |-> "from_number", n |-> n, expect |-> n] : n \in Sigs}
  \* wait statuses: exit codes, terminating signals with and without the core-dump bit
  \* (`back`: the wait status the portable form converts back to - the same code, the same signal, no core bit)
  \cup {[kind |-> "status", raw |-> c * 256,
         expect |-> IF c = 0 THEN [d |-> "success", v |-> 0, back |-> 0] ELSE [d |-> "error", v |-> c, back |-> c * 256]] : c \in 0..255}
  \cup {[kind |-> "status", raw |-> s + core * 128, expect |-> [d |-> "signal", v |-> s, back |-> s]] :
            s \in Sigs, core \in {0, 1}}

VARIABLES c, done
Init == c \in Cases /\ done = FALSE
Next == ~done /\ done' = TRUE /\ UNCHANGED c

\* every spelling of a signal means that signal unless a control name says otherwise
SpellingsAgree ==
    c.kind = "parse" /\ c.text \notin DOMAIN Control =>
        \E n \in Sigs : c.expect = n /\ c.text \in {Spelling(n, "short"), Spelling(n, "prefixed"), Spelling(n, "number")}

Emit == done => PrintT(<<"CASE", ToJson(c)>>)
=============================================================================
