---------------------------- MODULE IgnoreScope ----------------------------
(***************************************************************************)
(* C03: ignore files apply only inside their directory; nearest match wins.*)
(*                                                                         *)
(* Reference semantics of a tree of git-style ignore files over a small    *)
(* universe: a fixed project tree whose sibling directories `test` and     *)
(* `tests` are string-prefix related (and an outside directory whose name  *)
(* extends the origin's), ignore files placed at the origin, in            *)
(* sub-directories and globally, with one or two lines over a pattern      *)
(* grammar (names, *.ext, dir/, /rooted, a/b, **/x, x/**, negations).      *)
(*                                                                         *)
(* Verdict(files, path): the ignore files of the ancestor directories of   *)
(* the path are consulted nearest first, then the global ones; within one  *)
(* directory's patterns the last matching line decides, the path itself is *)
(* tried before its parents.  TLC checks the scoping laws on this          *)
(* definition and prints every case with the expected verdict of every     *)
(* probe; the harness builds the real tree and asks the real IgnoreFilter. *)
(***************************************************************************)
EXTENDS Integers, Sequences, FiniteSets, TLC, Json, Randomization, Glob

CONSTANTS Family,   \* which slice of the universe this run enumerates
          Sample    \* size of the random slice (Family = "sample")

---------------------------------------------------------------------------
\* The tree and the probes (paths relative to the origin; "OUT" marks a path outside it)

Global == <<"GLOBAL">>
Locs == { <<>>, <<"test">>, <<"tests">>, <<"test", "sub">>, Global }

Pr(path, isDir) == [path |-> path, isDir |-> isDir]
InsideProbes == {
    Pr(<<"foo">>, FALSE), Pr(<<"x.o">>, FALSE),
    Pr(<<"test">>, TRUE), Pr(<<"tests">>, TRUE), Pr(<<"a">>, TRUE),
    Pr(<<"test", "foo">>, FALSE), Pr(<<"test", "x.o">>, FALSE), Pr(<<"test", "sub">>, TRUE),
    Pr(<<"test", "sub", "foo">>, FALSE), Pr(<<"test", "sub", "x.o">>, FALSE),
    Pr(<<"tests", "foo">>, FALSE), Pr(<<"tests", "x.o">>, FALSE), Pr(<<"tests", "sub">>, TRUE),
    Pr(<<"tests", "sub", "foo">>, FALSE), Pr(<<"tests", "sub", "x.o">>, FALSE),
    Pr(<<"a", "foo">>, FALSE), Pr(<<"a", "x.o">>, FALSE) }
OutsideProbes == { Pr(<<"OUT", "foo">>, FALSE), Pr(<<"OUT", "x.o">>, FALSE), Pr(<<"OUT", "sub">>, TRUE) }
Probes == InsideProbes \cup OutsideProbes

\* files: a sequence of [loc, lines]; several files applying in one directory keep their order
LinesAt(files, loc) ==
    LET RECURSIVE Cat(_)
        Cat(i) == IF i > Len(files) THEN <<>>
                  ELSE IF files[i].loc = loc THEN files[i].lines \o Cat(i + 1) ELSE Cat(i + 1)
    IN  Cat(1)

IsPrefix(d, p) == Len(d) <= Len(p) /\ SubSeq(p, 1, Len(d)) = d

\* nearest directory first (proper ancestors of the path, the origin last), then global
RECURSIVE Levels(_, _, _, _)
Levels(files, path, k, isDir) ==
    IF k < 0 THEN
        LET g == LinesAt(files, Global)
        IN  IF g = <<>> THEN "none" ELSE PathOrParents(g, path, Len(path), isDir)
    ELSE LET dir == SubSeq(path, 1, k)
             ls  == LinesAt(files, dir)
             rel == SubSeq(path, k + 1, Len(path))
             v   == IF ls = <<>> THEN "none" ELSE PathOrParents(ls, rel, Len(rel), isDir)
         IN  IF v # "none" THEN v ELSE Levels(files, path, k - 1, isDir)

Verdict(files, pr) ==
    IF Head(pr.path) = "OUT"
    THEN \* outside the origin only global patterns can apply
         LET g == LinesAt(files, Global)
         IN  IF g = <<>> THEN "none" ELSE PathOrParents(g, Tail(pr.path), Len(pr.path) - 1, pr.isDir)
    ELSE Levels(files, pr.path, Len(pr.path) - 1, pr.isDir)

\* git's own evaluation (dir.c: last_matching_pattern and the rule that nothing below an excluded
\* directory can be re-included), inside the origin and without global files: the PATH ITSELF against
\* the files from the nearest directory to the origin, last matching line of the first file that has one;
\* and before that, the same question for every directory above it.  It differs from the glob library's
\* "path or any parent, first answer wins" exactly when the answer for a PARENT directory is a
\* re-inclusion: git then goes on with the path itself, the library stops.
RECURSIVE GitSelf(_, _, _, _)
GitSelf(files, path, k, isDir) ==
    IF k < 0 THEN "none"
    ELSE LET ls  == LinesAt(files, SubSeq(path, 1, k))
             rel == SubSeq(path, k + 1, Len(path))
             v   == IF ls = <<>> THEN "none" ELSE LastMatch(ls, Len(ls), rel, isDir)
         IN  IF v # "none" THEN v ELSE GitSelf(files, path, k - 1, isDir)
GitIgnored(files, pr) ==
    \/ \E k \in 1..(Len(pr.path) - 1) : GitSelf(files, SubSeq(pr.path, 1, k), k - 1, TRUE) = "ignore"
    \/ GitSelf(files, pr.path, Len(pr.path) - 1, pr.isDir) = "ignore"

\* What the property leaves open: a directory versus an ignore file stored in that very
\* directory; re-inclusion below an excluded parent (git and the glob library differ);
\* anchored global patterns seen from outside the origin.
AncestorIgnored(files, pr) ==
    \E k \in 1..(Len(pr.path) - 1) : Verdict(files, Pr(SubSeq(pr.path, 1, k), TRUE)) = "ignore"

Unspecified(files, pr) ==
    \/ pr.isDir /\ LinesAt(files, pr.path) # <<>>
    \/ Head(pr.path) # "OUT" /\ AncestorIgnored(files, pr) /\ Verdict(files, pr) # "ignore"
    \/ Head(pr.path) = "OUT" /\ \E i \in 1..Len(LinesAt(files, Global)) : LinesAt(files, Global)[i].anchored
    \* wherever git itself would answer differently from the library's path-or-any-parent walk (a parent
    \* directory re-included by a nearer file, the path itself ignored by a farther one)
    \/ Head(pr.path) # "OUT" /\ LinesAt(files, Global) = <<>> /\ (Verdict(files, pr) = "ignore") # GitIgnored(files, pr)
    \* a directory d against a pattern d/**: git's check-ignore counts the directory itself as matched, the
    \* glob library only what is inside it (found by comparing this specification with git: tools/gitoracle.py)
    \/ pr.isDir /\ \E i \in DOMAIN files : \E j \in DOMAIN files[i].lines :
           LET p == files[i].lines[j] IN
           /\ Len(p.segs) >= 2 /\ p.segs[Len(p.segs)].k = "dstar"
           /\ p.segs[Len(p.segs) - 1].k = "lit" /\ p.segs[Len(p.segs) - 1].v = pr.path[Len(pr.path)]

Expected(files, pr) ==
    IF Unspecified(files, pr) THEN "any"
    ELSE IF Verdict(files, pr) = "ignore" THEN "ignored" ELSE "kept"

---------------------------------------------------------------------------
\* Universe

F(loc, lines) == [loc |-> loc, lines |-> lines]
OneLine  == {<<p>> : p \in Pats}
TwoLines == {<<p, q>> : p \in Pats, q \in Pats}

\* (parameterised so that TLC does not build the big slices unless the run asks for them)
Single(x)   == {<<F(l, ls)>> : l \in Locs, ls \in OneLine \cup TwoLines}
Pairs1(x)   == {<<F(l1, a), F(l2, b)>> : l1 \in Locs, l2 \in Locs, a \in OneLine, b \in OneLine}

RndLines(n) == [j \in 1..n |-> RandomElement(Pats)]
RndFiles(n, k) == [i \in 1..n |-> F(RandomElement(Locs), RndLines(k))]
Sampled(x)  == {RndFiles(3, 1) : i \in 1..Sample} \cup {RndFiles(2, 2) : i \in 1..Sample}
               \cup {RndFiles(3, 2) : i \in 1..Sample}

P(text) == CHOOSE p \in Pats : p.text = text
\* the known trouble spot, always included: a negation in `test` next to an ignore above
Witness == { <<F(<<>>, <<P("foo")>>), F(<<"test">>, <<P("!foo")>>)>>,
             <<F(<<>>, <<P("*.o")>>), F(<<"test">>, <<P("!*.o")>>)>>,
             <<F(Global, <<P("foo")>>), F(<<"test">>, <<P("!foo")>>)>> }

Universe ==
    CASE Family = "single"  -> Single(0) \cup Witness
      [] Family = "pairs"   -> Pairs1(0)
      [] Family = "sample"  -> Sampled(0) \cup Witness

VARIABLES files, done

Init == files \in Universe /\ done = FALSE
Next == ~done /\ done' = TRUE /\ UNCHANGED files

\* Laws of the reference (checked on every enumerated case)

Without(fs, i) == SubSeq(fs, 1, i - 1) \o SubSeq(fs, i + 1, Len(fs))

\* removing an ignore file never changes the verdict of a path outside the directory it applies in
Scoping ==
    \A i \in 1..Len(files) : \A pr \in InsideProbes :
        (files[i].loc # Global /\ ~IsPrefix(files[i].loc, pr.path))
            => Verdict(files, pr) = Verdict(Without(files, i), pr)

\* a negation only ever re-includes inside its own directory
NegationLocal ==
    \A pr \in InsideProbes :
        Verdict(files, pr) = "white" =>
            \E i \in 1..Len(files) : (files[i].loc = Global \/ IsPrefix(files[i].loc, pr.path))
                                     /\ \E j \in 1..Len(files[i].lines) : files[i].lines[j].neg

\* files applying in different directories may be listed in any order
OrderIrrelevant ==
    Len(files) = 2 /\ files[1].loc # files[2].loc
        => \A pr \in Probes : Verdict(files, pr) = Verdict(<<files[2], files[1]>>, pr)

Emit ==
    done =>
        PrintT(<<"CASE", ToJson([
            files  |-> [i \in 1..Len(files) |->
                          [loc |-> files[i].loc,
                           lines |-> [j \in 1..Len(files[i].lines) |-> files[i].lines[j].text]]],
            expect |-> {[path |-> pr.path, dir |-> pr.isDir, v |-> Expected(files, pr)] : pr \in Probes}])>>)
=============================================================================
