INIT Init
NEXT Next
CONSTANTS
  Family = "sample"
  Sample = 12000
INVARIANTS EmptyPassesAll NoPathPasses WhitelistPasses IgnoreBeatsFilter IgnoreMonotone Emit
CHECK_DEADLOCK FALSE
