--------------------------- MODULE GlobsetVerdict ---------------------------
(***************************************************************************)
(* C11: the verdict of the default path filterer (GlobsetFilterer).        *)
(*                                                                         *)
(* The documented rule as an operator over per-path facts, with Glob.tla   *)
(* supplying the facts for a pattern / path universe:                      *)
(*   an event without paths passes; an event naming a whitelisted file     *)
(*   passes; otherwise it is rejected if the loaded ignore file rejects    *)
(*   it; else it passes exactly when some path is not matched by an ignore *)
(*   pattern and - if filter patterns or extensions are configured -       *)
(*   matches a filter pattern or (not being a directory) has one of the    *)
(*   extensions.                                                           *)
(* Patterns are matched against the path itself (not its parents), rooted  *)
(* at the origin; the last matching pattern of a list decides and a        *)
(* negated one un-matches.  A path outside the origin ("OUT" ...) is       *)
(* matched as it stands: patterns rooted at the origin cannot match it,    *)
(* floating ones (a bare name, *.ext, dir/, a leading double star) still do, and     *)
(* the ignore file of the origin does not apply to it.                     *)
(***************************************************************************)
EXTENDS Integers, Sequences, FiniteSets, TLC, Json, Randomization, Glob

CONSTANTS Family, Sample

\* probes: path (relative to the origin), file type as the event carries it
Pr(path, ft) == [path |-> path, ft |-> ft]
PathPool == { <<"foo">>, <<"x.o">>, <<"test">>, <<"test", "foo">>, <<"test", "x.o">>, <<"test", "sub">>,
              <<"test", "sub", "x.o">>, <<"tests", "foo">>, <<"tests", "sub">>,
              <<"OUT", "foo">>, <<"OUT", "x.o">>, <<"OUT", "sub">>, <<"OUT", "test", "foo">> }
IsDirPath(p) == p \in {<<"test">>, <<"test", "sub">>, <<"tests", "sub">>, <<"OUT", "sub">>}
IsOut(pr) == Head(pr.path) = "OUT"
Probes == {Pr(p, ft) : p \in PathPool, ft \in {"known", "unknown"}}
IsDir(pr) == pr.ft = "known" /\ IsDirPath(pr.path)      \* an unknown type is not a directory

HasExtO(pr) == pr.path[Len(pr.path)] = "x.o"

\* exts: extensions are configured; they are given as the list <<"o">> or, in every second configuration,
\* as <<"zz", "o">> - the wanted extension need not be the first of the list
Cfg(f, i, e, w, ig) == [filters |-> f, ignores |-> i, exts |-> e, whitelist |-> w, ignorefile |-> ig]
ExtList(c) == IF ~c.exts THEN <<>> ELSE IF (Len(c.filters) + Len(c.ignores)) % 2 = 0 THEN <<"o">> ELSE <<"zz", "o">>

\* the patterns that are not tied to the origin
Floating(pats) ==
    LET keep == {i \in DOMAIN pats : ~pats[i].anchored \/ pats[i].segs[1].k = "dstar"}
        RECURSIVE Sel(_)
        Sel(i) == IF i > Len(pats) THEN <<>> ELSE (IF i \in keep THEN <<pats[i]>> ELSE <<>>) \o Sel(i + 1)
    IN  Sel(1)

Matched(pats, pr) ==
    IF IsOut(pr)
    THEN LET ps == Floating(pats) IN ps # <<>> /\ LastMatch(ps, Len(ps), Tail(pr.path), IsDir(pr)) = "ignore"
    ELSE pats # <<>> /\ LastMatch(pats, Len(pats), pr.path, IsDir(pr)) = "ignore"

\* the ignore file at the origin (one list of lines): path or any parent, as in IgnoreScope; it says
\* nothing about paths outside the origin
FileRejects(lines, pr) ==
    ~IsOut(pr) /\ lines # <<>> /\ PathOrParents(lines, pr.path, Len(pr.path), IsDir(pr)) = "ignore"

FiltersConfigured(cfg) == \E i \in DOMAIN cfg.filters : ~cfg.filters[i].neg

\* Deliberate deviation of the code, named here: for compatibility with watchexec 1.x the filter
\* patterns are tried a second time against `<origin>//<relative path>`.  With the doubled
\* separator an anchored pattern that does not start with `**` cannot match, so on the second try
\* those patterns - in particular anchored negations - are out of play.
Compat1x(pats) == Floating(pats)
FilterMatched(cfg, pr) == Matched(cfg.filters, pr) \/ (~IsOut(pr) /\ Matched(Compat1x(cfg.filters), pr))

PathPasses(cfg, pr) ==
    /\ ~Matched(cfg.ignores, pr)
    /\ (FiltersConfigured(cfg) \/ cfg.exts)
          => \/ FiltersConfigured(cfg) /\ FilterMatched(cfg, pr)
             \/ cfg.exts /\ ~IsDir(pr) /\ HasExtO(pr)

Verdict(cfg, ev) ==
    IF \E i \in DOMAIN ev : ev[i].path \in cfg.whitelist THEN TRUE
    ELSE IF \E i \in DOMAIN ev : FileRejects(cfg.ignorefile, ev[i]) THEN FALSE
    ELSE IF ev = <<>> THEN TRUE
    ELSE \E i \in DOMAIN ev : PathPasses(cfg, ev[i])

---------------------------------------------------------------------------
StarO == <<CHOOSE p \in Pats : p.text = "*.o">>
PatSeqs(n) == IF n = 0 THEN {<<>>} ELSE {<<>>} \cup {<<p>> : p \in Pats} \cup {<<p, q>> : p \in Pats, q \in Pats}
Lists1 == {<<>>} \cup {<<p>> : p \in Pats}

RndList(i) == LET k == RandomElement(0..2) IN [j \in 1..k |-> RandomElement(Pats)]
RndCfg(i) == Cfg(RndList(i), RndList(i + 1), RandomElement({TRUE, FALSE}),
                 RandomElement({{}, {<<"test", "foo">>}}), RandomElement(Lists1))

Universe ==
    CASE Family = "one" ->
            \* one list at a time, everything else empty: the facts themselves
            {Cfg(f, <<>>, FALSE, {}, <<>>) : f \in PatSeqs(2)} \cup {Cfg(<<>>, i, FALSE, {}, <<>>) : i \in PatSeqs(2)}
            \cup {Cfg(<<>>, <<>>, TRUE, {}, <<>>), Cfg(<<>>, <<>>, FALSE, {<<"test", "foo">>}, <<>>)}
            \cup {Cfg(<<>>, <<>>, FALSE, {}, ig) : ig \in Lists1}
      [] Family = "pairs" ->
            {Cfg(f, i, e, w, ig) : f \in Lists1, i \in Lists1, e \in {TRUE, FALSE},
                                   w \in {{}, {<<"test", "foo">>}}, ig \in {<<>>, StarO}}
      [] Family = "sample" -> {RndCfg(3 * i) : i \in 1..Sample}

VARIABLES cfg, done
Init == cfg \in Universe /\ done = FALSE
Next == ~done /\ done' = TRUE /\ UNCHANGED cfg

Events == {<<>>} \cup {<<p>> : p \in Probes}
          \cup {<<p, q>> : p \in {Pr(<<"foo">>, "known"), Pr(<<"test", "sub">>, "known")}, q \in Probes}

\* laws of the documented rule
EmptyPassesAll == (cfg.filters = <<>> /\ cfg.ignores = <<>> /\ ~cfg.exts /\ cfg.ignorefile = <<>>)
                      => \A ev \in Events : Verdict(cfg, ev)
NoPathPasses   == Verdict(cfg, <<>>)
WhitelistPasses == \A ev \in Events : (\E i \in DOMAIN ev : ev[i].path \in cfg.whitelist) => Verdict(cfg, ev)
IgnoreBeatsFilter ==
    \A pr \in Probes : (Matched(cfg.ignores, pr) /\ pr.path \notin cfg.whitelist) => ~Verdict(cfg, <<pr>>)
\* adding a non-negated ignore pattern can only turn passes into rejections
IgnoreMonotone ==
    \A p \in {q \in Pats : ~q.neg} : \A ev \in Events :
        Verdict([cfg EXCEPT !.ignores = Append(@, p)], ev) => Verdict(cfg, ev)

Emit ==
    done => PrintT(<<"CASE", ToJson([
        filters |-> [i \in DOMAIN cfg.filters |-> cfg.filters[i].text],
        ignores |-> [i \in DOMAIN cfg.ignores |-> cfg.ignores[i].text],
        exts |-> cfg.exts, extlist |-> ExtList(cfg), whitelist |-> cfg.whitelist,
        ignorefile |-> [i \in DOMAIN cfg.ignorefile |-> cfg.ignorefile[i].text],
        expect |-> {[ev |-> ev, pass |-> Verdict(cfg, ev)] : ev \in Events}])>>)
=============================================================================
