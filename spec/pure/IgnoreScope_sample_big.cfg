INIT Init
NEXT Next
CONSTANTS
  Family = "sample"
  Sample = 20000
INVARIANTS Scoping NegationLocal OrderIrrelevant Emit
CHECK_DEADLOCK FALSE
