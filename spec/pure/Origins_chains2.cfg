INIT Init
NEXT Next
CONSTANTS
  Depth = 2
  MaxPerLevel = 2
  Family = "chains"
INVARIANTS WalkIsDeclarative OnChain TypesPartitioned Emit
CHECK_DEADLOCK FALSE
