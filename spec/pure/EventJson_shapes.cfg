INIT Init
NEXT Next
CONSTANT Family = "shapes"
INVARIANTS RoundTrip NeverAnotherKind Total OwnDocsKnown Emit
CHECK_DEADLOCK FALSE
