INIT Init
NEXT Next
CONSTANTS
  Family = "sample"
  Sample = 1500
INVARIANTS EmptyPassesAll NoPathPasses WhitelistPasses IgnoreBeatsFilter IgnoreMonotone Emit
CHECK_DEADLOCK FALSE
