------------------------------ MODULE Discover ------------------------------
(***************************************************************************)
(* C14: ignore-file discovery finds exactly the applicable files and       *)
(* prunes ignored directories, whatever the directory listing order.       *)
(*                                                                         *)
(* A small project tree (prefix-related siblings test / tests, a nested    *)
(* sub, two VCS metadata directories), ignore files of the three walked    *)
(* kinds placed in its directories (absent, empty, or with lines that      *)
(* ignore a directory, re-include it, or only concern files), the          *)
(* origin-level files (.git/info/exclude, .bzrignore, _darcs/prefs/boring, *)
(* .fossil-settings/ignore-glob, git's core.excludesFile, explicit ignore  *)
(* files), and optional explicit watch paths.                              *)
(*                                                                         *)
(* Expected(...) says declaratively which files must be found: those of    *)
(* every directory reachable from the origin without entering a directory  *)
(* that the ignore files ABOVE it ignore, or the origin's VCS metadata     *)
(* directory, or (with explicit watches) a directory unrelated to them;    *)
(* empty files never.  The walker of from_origin() (a stack of directories *)
(* to visit, a skip list, a filter that grows as files are found) is       *)
(* modelled with a nondeterministic listing order; TLC checks that every   *)
(* order ends with exactly Expected.  Each configuration is then one case  *)
(* for the real code on a real tree.                                       *)
(***************************************************************************)
EXTENDS Integers, Sequences, FiniteSets, TLC, Json, Randomization, Glob

CONSTANTS Family, Sample,
          PrefilterChildren   \* TRUE: the pinned walker (children are checked against the filter when they
                              \* are listed, before their parent's own ignore files are loaded)

Dirs == { <<>>, <<"test">>, <<"tests">>, <<"a">>, <<".git">>, <<"_darcs">>, <<"test", "sub">>, <<"tests", "sub">> }
MetaDirs == { <<".git">>, <<"_darcs">> }
Children(d) == {c \in Dirs : Len(c) = Len(d) + 1 /\ SubSeq(c, 1, Len(d)) = d}
IsPrefix(d, p) == Len(d) <= Len(p) /\ SubSeq(p, 1, Len(d)) = d

\* where a walked ignore file may sit, and what it may contain
Locs == { <<>>, <<"test">>, <<"tests">>, <<"test", "sub">> }
MetaLocs == { <<"_darcs">> }        \* a walked ignore file inside a metadata directory is never found
P(text) == CHOOSE p \in Pats : p.text = text
Contents == { <<>>,                       \* an empty (zero-length) file: never reported
              <<P("sub/")>>, <<P("tests/")>>, <<P("test")>>, <<P("!sub/")>>, <<P("*.o")>>,
              <<P("sub/"), P("!sub/")>> }
Kinds == {".gitignore", ".ignore", ".hgignore"}

\* a configuration: files = set of [loc, kind, lines]; exclude = the origin-level files that exist, a
\* sequence of [kind, lines] in the order from_origin() looks for them (later ones take precedence)
OriginKinds == <<"explicit", "excludesfile", ".bzrignore", "_darcs/prefs/boring", ".fossil-settings/ignore-glob",
                 ".git/info/exclude">>
OFile(kind, ls) == [kind |-> kind, lines |-> ls]
NoExclude == <<>>
Excl(ls) == <<OFile(".git/info/exclude", ls)>>
Cfg(files, exclude, watches) == [files |-> files, exclude |-> exclude, watches |-> watches]

AppliesTo(kind) ==
    CASE kind \in {".gitignore", ".git/info/exclude", "excludesfile"} -> "Git"
      [] kind = ".hgignore" -> "Mercurial"
      [] kind = ".bzrignore" -> "Bazaar"
      [] kind = "_darcs/prefs/boring" -> "Darcs"
      [] kind = ".fossil-settings/ignore-glob" -> "Fossil"
      [] OTHER -> "-"

---------------------------------------------------------------------------
\* ignore semantics for a directory path, given the loaded files (a sequence of [loc, lines],
\* loc = GLOBAL never occurs here): nearest directory first, path or any parent, last line wins
LinesAtLoc(loaded, loc) ==
    LET RECURSIVE Cat(_)
        Cat(i) == IF i > Len(loaded) THEN <<>>
                  ELSE IF loaded[i].loc = loc THEN loaded[i].lines \o Cat(i + 1) ELSE Cat(i + 1)
    IN  Cat(1)

GlobalLoc == <<"~global~">>
RECURSIVE DirLevels(_, _, _)
DirLevels(loaded, path, k) ==
    IF k < 0
    THEN \* farthest: files that apply everywhere (git's core.excludesFile)
         LET g == LinesAtLoc(loaded, GlobalLoc)
         IN  IF g = <<>> THEN "none" ELSE PathOrParents(g, path, Len(path), TRUE)
    ELSE LET ls  == LinesAtLoc(loaded, SubSeq(path, 1, k))
             rel == SubSeq(path, k + 1, Len(path))
             v   == IF ls = <<>> THEN "none" ELSE PathOrParents(ls, rel, Len(rel), TRUE)
         IN  IF v # "none" THEN v ELSE DirLevels(loaded, path, k - 1)

\* check_dir(): FALSE (= skip) iff the loaded files ignore the directory, or it is the origin's
\* VCS metadata directory (the walker adds "/.git" and friends as globs of the origin)
DirIgnored(loaded, d) ==
    d # <<>> /\ (d \in MetaDirs \/ DirLevels(loaded, d, Len(d) - 1) = "ignore")

WatchOK(cfg, d) == cfg.watches = {} \/ \E w \in cfg.watches : IsPrefix(w, d) \/ IsPrefix(d, w)

\* the files that exist, in the order the walker tries them in one directory
KindOrder == <<".ignore", ".gitignore", ".hgignore">>
FilesIn(cfg, d) ==
    LET RECURSIVE Sel(_)
        Sel(i) == IF i > 3 THEN <<>>
                  ELSE LET fs == {f \in cfg.files : f.loc = d /\ f.kind = KindOrder[i] /\ f.lines # <<>>}
                       IN  (IF fs = {} THEN <<>> ELSE <<CHOOSE f \in fs : TRUE>>) \o Sel(i + 1)
    IN  Sel(1)

\* what the walker's filter starts with: the origin-level files that are not empty, in order
Initial(cfg) ==
    LET RECURSIVE Sel(_)
        Sel(i) == IF i > Len(cfg.exclude) THEN <<>>
                  ELSE (IF cfg.exclude[i].lines = <<>> THEN <<>>
                        ELSE <<[loc |-> IF cfg.exclude[i].kind = "excludesfile" THEN GlobalLoc ELSE <<>>,
                                lines |-> cfg.exclude[i].lines]>>) \o Sel(i + 1)
    IN  Sel(1)

---------------------------------------------------------------------------
\* Declarative expectation

\* the files loaded when all proper ancestors of d have been visited (order irrelevant by scoping)
AboveFiles(cfg, d) ==
    LET anc == {a \in Dirs : IsPrefix(a, d) /\ a # d}
        RECURSIVE Gather(_)
        Gather(k) == IF k >= Len(d) THEN <<>>
                     ELSE [i \in DOMAIN FilesIn(cfg, SubSeq(d, 1, k)) |->
                              [loc |-> SubSeq(d, 1, k), lines |-> FilesIn(cfg, SubSeq(d, 1, k))[i].lines]]
                          \o Gather(k + 1)
    IN  Initial(cfg) \o Gather(0)

RECURSIVE Reachable(_, _)
Reachable(cfg, d) ==
    IF d = <<>> THEN TRUE
    ELSE /\ Reachable(cfg, SubSeq(d, 1, Len(d) - 1))
         /\ ~DirIgnored(AboveFiles(cfg, d), d)
         /\ WatchOK(cfg, d)

ExpectedFound(cfg) ==
    {[loc |-> f.loc, kind |-> f.kind] : f \in {f \in cfg.files : f.lines # <<>> /\ Reachable(cfg, f.loc)}}

\* the origin-level files reported: those that are not empty; an explicit ignore file is taken as given
ExpectedOrigin(cfg) ==
    {[loc |-> <<>>, kind |-> cfg.exclude[i].kind, applies_to |-> AppliesTo(cfg.exclude[i].kind)] :
        i \in {i \in DOMAIN cfg.exclude : cfg.exclude[i].lines # <<>> \/ cfg.exclude[i].kind = "explicit"}}

---------------------------------------------------------------------------
\* The walker (DirTourist), listing order left open

VARIABLES cfg, stack, skip, loaded, found, pc

MustSkip(d) == \E s \in skip : IsPrefix(s, d)

Init ==
    /\ cfg \in
         CASE Family = "one" ->
                {Cfg({[loc |-> l, kind |-> k, lines |-> c]}, NoExclude, w) :
                    l \in Locs, k \in Kinds, c \in Contents,
                    \* explicit watches, among them sibling directories whose names are prefix-related
                    w \in {{}, {<<"test">>}, {<<"test", "sub">>}, {<<"a">>}, {<<"test">>, <<"tests">>},
                           {<<"tests">>, <<"test", "sub">>}}}
                \cup {Cfg({[loc |-> l, kind |-> ".gitignore", lines |-> c]}, e, {}) :
                    l \in Locs, c \in Contents, e \in {Excl(<<>>), Excl(<<P("tests/")>>), Excl(<<P("sub/")>>)}}
           [] Family = "origin" ->
                \* every origin-level file against one walked file, and pairs of origin-level files
                \* that contradict each other (the later one wins)
                {Cfg({[loc |-> l, kind |-> ".gitignore", lines |-> c]}, <<OFile(k, e)>>, {}) :
                    l \in Locs \cup MetaLocs, c \in {<<P("*.o")>>, <<P("!sub/")>>, <<P("sub/")>>},
                    k \in {OriginKinds[i] : i \in DOMAIN OriginKinds}, e \in {<<>>, <<P("tests/")>>, <<P("sub/")>>, <<P("!sub/")>>}}
                \cup {Cfg({[loc |-> <<"test", "sub">>, kind |-> ".ignore", lines |-> <<P("*.o")>>]},
                          <<OFile(OriginKinds[i], e1), OFile(OriginKinds[j], e2)>>, {}) :
                        i \in DOMAIN OriginKinds, j \in DOMAIN OriginKinds,
                        e1 \in {<<P("sub/")>>, <<P("!sub/")>>}, e2 \in {<<P("sub/")>>, <<P("!sub/")>>}}
           [] Family = "two" ->
                {Cfg({[loc |-> l1, kind |-> ".gitignore", lines |-> c1], [loc |-> l2, kind |-> ".ignore", lines |-> c2]},
                     NoExclude, {}) : l1 \in Locs, l2 \in Locs, c1 \in Contents, c2 \in Contents}
           [] Family = "sample" ->
                {Cfg({[loc |-> RandomElement(Locs), kind |-> RandomElement(Kinds), lines |-> RandomElement(Contents)],
                      [loc |-> RandomElement(Locs), kind |-> RandomElement(Kinds), lines |-> RandomElement(Contents)],
                      [loc |-> RandomElement(Locs), kind |-> RandomElement(Kinds), lines |-> RandomElement(Contents)]},
                     RandomElement({NoExclude, Excl(<<P("tests/")>>), Excl(<<P("sub/")>>)}),
                     RandomElement({{}, {<<"test">>}, {<<"tests", "sub">>}, {<<"test">>, <<"a">>}, {<<"test">>, <<"tests">>}})) : i \in 1..Sample}
    /\ \A f, g \in cfg.files : (f.loc = g.loc /\ f.kind = g.kind) => f = g      \* one file per name
    /\ \A i, j \in DOMAIN cfg.exclude : i < j =>                                  \* in the order of OriginKinds
          \E a, b \in DOMAIN OriginKinds : a < b /\ OriginKinds[a] = cfg.exclude[i].kind /\ OriginKinds[b] = cfg.exclude[j].kind
    /\ stack = <<<<>>>> /\ skip = {} /\ loaded = Initial(cfg) /\ found = {} /\ pc = "run"

\* all orders in which the children still to be considered can be pushed
Perms(S) == {s \in [1..Cardinality(S) -> S] : \A i, j \in 1..Cardinality(S) : i # j => s[i] # s[j]}

\* pushing the listed children one by one: those the filter rejects go to the skip list
RECURSIVE PushAll(_, _, _, _)
PushAll(order, i, st, sk) ==
    IF i > Len(order) THEN [stack |-> st, skip |-> sk]
    ELSE LET c == order[i] IN
         IF \E s \in sk : IsPrefix(s, c) THEN PushAll(order, i + 1, st, sk)
         ELSE IF PrefilterChildren /\ DirIgnored(loaded, c) THEN PushAll(order, i + 1, st, sk \cup {c})
         ELSE PushAll(order, i + 1, Append(st, c), sk)

Visit ==
    /\ pc = "run" /\ stack # <<>>
    /\ LET d    == stack[Len(stack)]
           rest == SubSeq(stack, 1, Len(stack) - 1)
       IN  IF MustSkip(d) THEN
               /\ stack' = rest /\ UNCHANGED <<skip, loaded, found>>
           ELSE IF DirIgnored(loaded, d) \/ ~WatchOK(cfg, d) THEN
               \* skip(d): also forget queued directories below it
               /\ skip' = skip \cup {d}
               /\ stack' = SelectSeq(rest, LAMBDA x : ~IsPrefix(d, x))
               /\ UNCHANGED <<loaded, found>>
           ELSE \E order \in Perms(Children(d)) :
               LET r  == PushAll(order, 1, rest, skip)
                   fs == FilesIn(cfg, d)
               IN  /\ stack' = r.stack /\ skip' = r.skip
                   /\ found' = found \cup {[loc |-> d, kind |-> fs[i].kind] : i \in DOMAIN fs}
                   /\ loaded' = loaded \o [i \in DOMAIN fs |-> [loc |-> d, lines |-> fs[i].lines]]
    /\ UNCHANGED <<cfg, pc>>

Finish == pc = "run" /\ stack = <<>> /\ pc' = "done" /\ UNCHANGED <<cfg, stack, skip, loaded, found>>
Next == Visit \/ Finish

\* whatever the listing order, the walk ends with exactly the expected files
OrderIndependent == pc = "done" => found = ExpectedFound(cfg)
\* nothing is ever found inside a directory that is not reachable
NeverInsidePruned == \A f \in found : Reachable(cfg, f.loc)

Emit ==
    pc = "done" =>
        PrintT(<<"CASE", ToJson([
            files   |-> {[loc |-> f.loc, kind |-> f.kind,
                          lines |-> [i \in DOMAIN f.lines |-> f.lines[i].text]] : f \in cfg.files},
            exclude |-> [i \in DOMAIN cfg.exclude |->
                            [kind |-> cfg.exclude[i].kind,
                             lines |-> [j \in DOMAIN cfg.exclude[i].lines |-> cfg.exclude[i].lines[j].text]]],
            watches |-> cfg.watches,
            expect  |-> {[loc |-> f.loc, kind |-> f.kind, applies_to |-> AppliesTo(f.kind)] : f \in ExpectedFound(cfg)}
                        \cup ExpectedOrigin(cfg)])>>)
=============================================================================
