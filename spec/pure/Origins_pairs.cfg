INIT Init
NEXT Next
CONSTANTS
  Depth = 1
  MaxPerLevel = 2
  Family = "pairs"
INVARIANTS WalkIsDeclarative OnChain TypesPartitioned Emit
CHECK_DEADLOCK FALSE
