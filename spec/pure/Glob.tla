-------------------------------- MODULE Glob --------------------------------
(* git-style glob patterns over paths that are sequences of names: the pattern table used by *)
(* IgnoreScope (C03) and GlobsetVerdict (C11), and what it means for a pattern to match.      *)
EXTENDS Integers, Sequences, FiniteSets


Lit(v)  == [k |-> "lit", v |-> v]
Ext(v)  == [k |-> "ext", v |-> v]
DStar   == [k |-> "dstar", v |-> ""]

Pat(text, neg, dirOnly, anchored, segs) ==
    [text |-> text, neg |-> neg, dirOnly |-> dirOnly, anchored |-> anchored, segs |-> segs]

Pats == {
    Pat("foo",        FALSE, FALSE, FALSE, <<Lit("foo")>>),
    Pat("!foo",       TRUE,  FALSE, FALSE, <<Lit("foo")>>),
    Pat("*.o",        FALSE, FALSE, FALSE, <<Ext(".o")>>),
    Pat("!*.o",       TRUE,  FALSE, FALSE, <<Ext(".o")>>),
    Pat("sub/",       FALSE, TRUE,  FALSE, <<Lit("sub")>>),
    Pat("!sub/",      TRUE,  TRUE,  FALSE, <<Lit("sub")>>),
    Pat("/foo",       FALSE, FALSE, TRUE,  <<Lit("foo")>>),
    Pat("test/foo",   FALSE, FALSE, TRUE,  <<Lit("test"), Lit("foo")>>),
    Pat("!tests/foo", TRUE,  FALSE, TRUE,  <<Lit("tests"), Lit("foo")>>),
    Pat("**/foo",     FALSE, FALSE, TRUE,  <<DStar, Lit("foo")>>),
    Pat("sub/**",     FALSE, FALSE, TRUE,  <<Lit("sub"), DStar>>),
    Pat("tests/",     FALSE, TRUE,  FALSE, <<Lit("tests")>>),
    Pat("test",       FALSE, FALSE, FALSE, <<Lit("test")>>),
    Pat("sub/x.o",    FALSE, FALSE, TRUE,  <<Lit("sub"), Lit("x.o")>>)
}

HasExt(name, e) == e = ".o" /\ name = "x.o"

NameMatch(seg, name) ==
    IF seg.k = "lit" THEN seg.v = name ELSE IF seg.k = "ext" THEN HasExt(name, seg.v) ELSE FALSE

RECURSIVE MS(_, _)
MS(segs, p) ==
    IF segs = <<>> THEN p = <<>>
    ELSE IF Head(segs).k = "dstar"
         THEN IF Len(segs) = 1 THEN Len(p) >= 1      \* trailing /**: everything inside
              ELSE \E i \in 0..Len(p) : MS(Tail(segs), SubSeq(p, i + 1, Len(p)))
         ELSE p # <<>> /\ NameMatch(Head(segs), Head(p)) /\ MS(Tail(segs), Tail(p))

\* does the pattern match the path `rel` (relative to the ignore file's directory)?
PatMatches(pat, rel, isDir) ==
    /\ rel # <<>>
    /\ pat.dirOnly => isDir
    /\ IF pat.anchored THEN MS(pat.segs, rel) ELSE MS(<<DStar>> \o pat.segs, rel)

\* last matching line decides
RECURSIVE LastMatch(_, _, _, _)
LastMatch(lines, i, rel, isDir) ==
    IF i = 0 THEN "none"
    ELSE IF PatMatches(lines[i], rel, isDir)
         THEN IF lines[i].neg THEN "white" ELSE "ignore"
         ELSE LastMatch(lines, i - 1, rel, isDir)

\* the path itself, then each of its parents (as directories), inside one directory's patterns
RECURSIVE PathOrParents(_, _, _, _)
PathOrParents(lines, rel, k, isDir) ==
    IF k = 0 THEN "none"
    ELSE LET v == LastMatch(lines, Len(lines), SubSeq(rel, 1, k), IF k = Len(rel) THEN isDir ELSE TRUE)
         IN  IF v # "none" THEN v ELSE PathOrParents(lines, rel, k - 1, isDir)


=============================================================================
