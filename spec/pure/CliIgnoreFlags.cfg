INIT Init
NEXT Next
INVARIANTS RemovesExactly Monotone ShorthandMeaning Emit
CHECK_DEADLOCK FALSE
