INIT Init
NEXT Next
INVARIANTS RemovesExactly Monotone ShorthandMeaning OutsideIgnoresProjectFlags Emit
CHECK_DEADLOCK FALSE
