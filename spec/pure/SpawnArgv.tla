------------------------------ MODULE SpawnArgv ------------------------------
(***************************************************************************)
(* C18: commands are spawned with exactly the configured program and       *)
(* arguments.                                                              *)
(*                                                                         *)
(* Tokens are abstract (T1..Tn; the harness binds them to empty strings,   *)
(* whitespace, quotes, $, *, newlines, multi-byte text).  A command is     *)
(* either Exec(program, args) or Shell(shell, options, program option or   *)
(* none, command string, extra args).  The argument vector is assembled    *)
(* part by part (the Build steps, as Command::to_spawnable does) and must  *)
(* equal the declarative Argv(cmd): no splitting, joining, reordering.     *)
(* The spawn options place the child: plain = the parent's group and       *)
(* session, grouped = its own group in the parent's session, session = its *)
(* own session (and group).  The spawn hook's environment variable and     *)
(* working directory must be the child's.  None of this depends on which   *)
(* control made the job spawn: the first start, a restart, a graceful      *)
(* restart, a try-restart, or the respawn after a graceful try-restart     *)
(* whose process ended within its grace period (`via`).                    *)
(***************************************************************************)
EXTENDS Integers, Sequences, FiniteSets, TLC, Json

CONSTANTS Tokens, MaxArgs, MaxOpts

Seqs(S, n) == UNION {[1..k -> S] : k \in 0..n}

Cmds ==
    {[kind |-> "exec", args |-> a, opts |-> <<>>, progopt |-> "-", command |-> "-"] : a \in Seqs(Tokens, MaxArgs)}
    \cup
    {[kind |-> "shell", args |-> a, opts |-> o, progopt |-> p, command |-> c] :
        a \in Seqs(Tokens, MaxOpts), o \in Seqs(Tokens, MaxOpts), p \in {"-", "-c", "T1"}, c \in Tokens}

\* the spawn options: `grouped`, `session` (which implies grouped, also when both are set) and `reset_sigmask`
\* (which does not place the child anywhere)
Modes == {"plain", "grouped", "session"}
ModesAll == Modes \cup {"session+grouped", "plain+sigmask", "grouped+sigmask", "session+sigmask", "session+grouped+sigmask"}

\* what the child must see after argv[0]
Argv(cmd) ==
    IF cmd.kind = "exec" THEN cmd.args
    ELSE cmd.opts \o (IF cmd.progopt = "-" THEN <<>> ELSE <<cmd.progopt>>) \o <<cmd.command>> \o cmd.args

Placement(mode) ==
    CASE mode \in {"plain", "plain+sigmask"}     -> [own_group |-> FALSE, own_session |-> FALSE]
      [] mode \in {"grouped", "grouped+sigmask"} -> [own_group |-> TRUE,  own_session |-> FALSE]
      [] OTHER                                   -> [own_group |-> TRUE,  own_session |-> TRUE]

Vias == {"start", "restart", "restart_with_signal", "try_restart", "try_restart_with_signal"}
\* (every way of respawning for the short commands, the first start for all)
ViasFor(c) == IF (c.kind = "exec" /\ Len(c.args) <= 1)
                 \/ (c.kind = "shell" /\ c.args = <<>> /\ Len(c.opts) <= 1 /\ c.command = "T1")
              THEN Vias ELSE {"start"}

Short(c) == (c.kind = "exec" /\ Len(c.args) <= 1)
            \/ (c.kind = "shell" /\ c.args = <<>> /\ Len(c.opts) <= 1 /\ c.command = "T1")
\* (every combination of options for the short commands, the three basic ones for all)
ModesFor(c, v) == IF Short(c) /\ v \in {"start", "restart_with_signal"} THEN ModesAll ELSE Modes

VARIABLES cmd, mode, via, built, pc

Init == cmd \in Cmds /\ via \in ViasFor(cmd) /\ mode \in ModesFor(cmd, via) /\ built = <<>> /\ pc = "start"

\* to_spawnable(): the argument vector is pushed part by part
Build ==
    /\ pc # "done"
    /\ CASE pc = "start" -> /\ pc' = (IF cmd.kind = "exec" THEN "args" ELSE "opts") /\ built' = built
         [] pc = "opts" -> /\ built' = built \o cmd.opts /\ pc' = "progopt"
         [] pc = "progopt" -> /\ built' = (IF cmd.progopt = "-" THEN built ELSE Append(built, cmd.progopt)) /\ pc' = "command"
         [] pc = "command" -> /\ built' = Append(built, cmd.command) /\ pc' = "args"
         [] pc = "args" -> /\ built' = built \o cmd.args /\ pc' = "done"
    /\ UNCHANGED <<cmd, mode, via>>

AssemblyIsArgv == pc = "done" => built = Argv(cmd)
\* nothing is split or merged: one element per configured token
LengthPreserved ==
    pc = "done" => Len(built) = Len(cmd.args) + Len(cmd.opts)
                                + (IF cmd.kind = "shell" THEN 1 + (IF cmd.progopt = "-" THEN 0 ELSE 1) ELSE 0)

Emit ==
    pc = "done" => PrintT(<<"CASE", ToJson([cmd |-> cmd, mode |-> mode, via |-> via, argv |-> Argv(cmd), place |-> Placement(mode)])>>)
=============================================================================
