------------------------------ MODULE SpawnArgv ------------------------------
(***************************************************************************)
(* C18: commands are spawned with exactly the configured program and       *)
(* arguments.                                                              *)
(*                                                                         *)
(* Tokens are abstract (T1..Tn; the harness binds them to empty strings,   *)
(* whitespace, quotes, $, *, newlines, multi-byte text).  A command is     *)
(* either Exec(program, args) or Shell(shell, options, program option or   *)
(* none, command string, extra args).  The argument vector is assembled    *)
(* part by part (the Build steps, as Command::to_spawnable does) and must  *)
(* equal the declarative Argv(cmd): no splitting, joining, reordering.     *)
(* The spawn options place the child: plain = the parent's group and       *)
(* session, grouped = its own group in the parent's session, session = its *)
(* own session (and group).  The spawn hook's environment variable and     *)
(* working directory must be the child's.  None of this depends on which   *)
(* control made the job spawn: the first start, a restart, a graceful      *)
(* restart, a try-restart, or the respawn after a graceful try-restart     *)
(* whose process ended within its grace period (`via`).                    *)
(***************************************************************************)
EXTENDS Integers, Sequences, FiniteSets, TLC, Json

CONSTANTS Tokens, MaxArgs, MaxOpts

Seqs(S, n) == UNION {[1..k -> S] : k \in 0..n}

Cmds ==
    {[kind |-> "exec", args |-> a, opts |-> <<>>, progopt |-> "-", command |-> "-"] : a \in Seqs(Tokens, MaxArgs)}
    \cup
    {[kind |-> "shell", args |-> a, opts |-> o, progopt |-> p, command |-> c] :
        a \in Seqs(Tokens, MaxOpts), o \in Seqs(Tokens, MaxOpts), p \in {"-", "-c", "T1"}, c \in Tokens}

\* the spawn options: `grouped`, `session` (which implies grouped, also when both are set) and `reset_sigmask`
\* (which does not place the child anywhere)
\* The command-line program's own way of making a command (interpret_command_args): --shell=none / -n run
\* the words as they are (the first is the program); otherwise the shell is --shell's value or $SHELL, split
\* at whitespace into the program and its options, the program option is -c, and the command is the words
\* joined with single spaces, as ONE argument.  (The harness uses a helper that reports its argv both as
\* the program and as the "shell", so nothing interprets the joined string.)
ShellSpecs == {"none", "n", "env", "S", "S1", "S2"}
ShellOpts(s) == CASE s = "S1" -> <<"O1">> [] s = "S2" -> <<"O1", "O2">> [] OTHER -> <<>>
NoShell(s) == s \in {"none", "n"}
CliCmds ==
    {[kind |-> "cli", shell |-> sh, args |-> a, opts |-> ShellOpts(sh), progopt |-> IF NoShell(sh) THEN "-" ELSE "-c",
      command |-> "-"] : sh \in ShellSpecs, a \in Seqs(Tokens, 2)}
RECURSIVE JoinSp(_)
JoinSp(w) == IF Len(w) = 1 THEN w[1] ELSE w[1] \o " " \o JoinSp(Tail(w))
CliWords(c) == <<"HELPER">> \o c.args

Modes == {"plain", "grouped", "session"}
ModesAll == Modes \cup {"session+grouped", "plain+sigmask", "grouped+sigmask", "session+sigmask", "session+grouped+sigmask"}

\* what the child must see after argv[0]
Argv(cmd) ==
    IF cmd.kind = "exec" THEN cmd.args
    ELSE IF cmd.kind = "cli" THEN (IF NoShell(cmd.shell) THEN cmd.args ELSE cmd.opts \o <<"-c", JoinSp(CliWords(cmd))>>)
    ELSE cmd.opts \o (IF cmd.progopt = "-" THEN <<>> ELSE <<cmd.progopt>>) \o <<cmd.command>> \o cmd.args

Placement(mode) ==
    CASE mode \in {"plain", "plain+sigmask"}     -> [own_group |-> FALSE, own_session |-> FALSE]
      [] mode \in {"grouped", "grouped+sigmask"} -> [own_group |-> TRUE,  own_session |-> FALSE]
      [] OTHER                                   -> [own_group |-> TRUE,  own_session |-> TRUE]

Vias == {"start", "restart", "restart_with_signal", "try_restart", "try_restart_with_signal"}
\* (every way of respawning for the short commands, the first start for all)
ViasFor(c) == IF c.kind = "cli" THEN {"start"} ELSE
              IF (c.kind = "exec" /\ Len(c.args) <= 1)
                 \/ (c.kind = "shell" /\ c.args = <<>> /\ Len(c.opts) <= 1 /\ c.command = "T1")
              THEN Vias ELSE {"start"}

Short(c) == (c.kind = "exec" /\ Len(c.args) <= 1)
            \/ (c.kind = "shell" /\ c.args = <<>> /\ Len(c.opts) <= 1 /\ c.command = "T1")
\* (every combination of options for the short commands, the three basic ones for all)
ModesFor(c, v) == IF Short(c) /\ v \in {"start", "restart_with_signal"} THEN ModesAll ELSE Modes

\* How the command-line program hands the events to the command (--emit-events-to): through environment
\* variables (the default), a file named by WATCHEXEC_EVENTS_FILE (two formats), the command's standard input
\* (two formats), or not at all.  The CLI does this in the same spawn hook that applies -E and --workdir;
\* whichever it is, the argument vector, the placement, the -E variables and the working directory are the
\* same, and the file's name is in the environment exactly in the two file modes.
EmitModes == {"default", "none", "environment", "file", "json-file", "stdio", "json-stdio"}
EmitFor(c) == IF c.kind = "cli" /\ Len(c.args) <= 1 THEN EmitModes ELSE {"default"}
HasEventsFile(e) == e \in {"file", "json-file"}

VARIABLES cmd, mode, via, emit, built, pc

Init == cmd \in Cmds \cup CliCmds /\ via \in ViasFor(cmd) /\ mode \in ModesFor(cmd, via) /\ emit \in EmitFor(cmd)
        /\ built = <<>> /\ pc = "start"

\* to_spawnable(): the argument vector is pushed part by part
Build ==
    /\ pc # "done"
    /\ CASE pc = "start" -> /\ pc' = (IF cmd.kind = "exec" \/ (cmd.kind = "cli" /\ NoShell(cmd.shell)) THEN "args" ELSE "opts")
                            /\ built' = built
         [] pc = "opts" -> /\ built' = built \o cmd.opts /\ pc' = "progopt"
         [] pc = "progopt" -> /\ built' = (IF cmd.progopt = "-" THEN built ELSE Append(built, cmd.progopt)) /\ pc' = "command"
         [] pc = "command" -> IF cmd.kind = "cli"     \* the words, joined; the shell gets no further arguments
                              THEN /\ built' = Append(built, JoinSp(CliWords(cmd))) /\ pc' = "done"
                              ELSE /\ built' = Append(built, cmd.command) /\ pc' = "args"
         [] pc = "args" -> /\ built' = built \o cmd.args /\ pc' = "done"
    /\ UNCHANGED <<cmd, mode, via, emit>>

AssemblyIsArgv == pc = "done" => built = Argv(cmd)
\* nothing is split or merged: one element per configured token
LengthPreserved ==
    (pc = "done" /\ cmd.kind # "cli") => Len(built) = Len(cmd.args) + Len(cmd.opts)
                                + (IF cmd.kind = "shell" THEN 1 + (IF cmd.progopt = "-" THEN 0 ELSE 1) ELSE 0)

Emit ==
    pc = "done" => PrintT(<<"CASE", ToJson([cmd |-> cmd, mode |-> mode, via |-> via, emit |-> emit, events_file |-> HasEventsFile(emit),
                                              argv |-> Argv(cmd), place |-> Placement(mode)])>>)
=============================================================================
