------------------------------ MODULE EventJson ------------------------------
(***************************************************************************)
(* C16: events survive a JSON round trip and the format is stable.         *)
(*                                                                         *)
(* The documented JSON form of every tag shape (Doc), and the decoder as a *)
(* decision table over which fields of a tag object are present and what   *)
(* they hold (Decode): a tag object of a known kind whose required fields  *)
(* are missing or contradictory becomes the explicit unknown tag, never a  *)
(* tag of another kind.  TLC checks RoundTrip (Decode(Doc(t)) = t),        *)
(* NeverAnotherKind and Total on the table and enumerates (a) every shape  *)
(* with its document, (b) every known kind with every subset of the ten    *)
(* optional fields present, with the tag it must decode to.  Unbounded     *)
(* leaves (paths, pids, codes, custom signal numbers) are placeholders     *)
(* which the harness fills with boundary and random values.                *)
(***************************************************************************)
EXTENDS Integers, Sequences, FiniteSets, TLC, Json

CONSTANT Family     \* "shapes" | "decode"

FsKinds == {
    "Any",
    "Access(Any)",
    "Access(Read)",
    "Access(Open(Any))",
    "Access(Open(Execute))",
    "Access(Open(Read))",
    "Access(Open(Write))",
    "Access(Open(Other))",
    "Access(Close(Any))",
    "Access(Close(Execute))",
    "Access(Close(Read))",
    "Access(Close(Write))",
    "Access(Close(Other))",
    "Access(Other)",
    "Create(Any)",
    "Create(File)",
    "Create(Folder)",
    "Create(Other)",
    "Modify(Any)",
    "Modify(Data(Any))",
    "Modify(Data(Size))",
    "Modify(Data(Content))",
    "Modify(Data(Other))",
    "Modify(Metadata(Any))",
    "Modify(Metadata(AccessTime))",
    "Modify(Metadata(WriteTime))",
    "Modify(Metadata(Permissions))",
    "Modify(Metadata(Ownership))",
    "Modify(Metadata(Extended))",
    "Modify(Metadata(Other))",
    "Modify(Name(Any))",
    "Modify(Name(To))",
    "Modify(Name(From))",
    "Modify(Name(Both))",
    "Modify(Name(Other))",
    "Modify(Other)",
    "Remove(Any)",
    "Remove(File)",
    "Remove(Folder)",
    "Remove(Other)",
    "Other"
}
Simple(full) ==
    IF full \in {"Any", "Other"} THEN "other"
    ELSE IF SubSeq(full, 1, 6) = "Access" THEN "access"
    ELSE IF SubSeq(full, 1, 6) = "Create" THEN "create"
    ELSE IF SubSeq(full, 1, 6) = "Modify" THEN "modify"
    ELSE "remove"
SimpleToFull(s) ==
    CASE s = "access" -> "Access(Any)" [] s = "create" -> "Create(Any)" [] s = "modify" -> "Modify(Any)"
      [] s = "remove" -> "Remove(Any)" [] OTHER -> "Other"

FileTypes == {"file", "dir", "symlink", "other"}
Sources == {"filesystem", "keyboard", "mouse", "os", "time", "internal"}
NamedSignals == {"SIGHUP", "SIGKILL", "SIGINT", "SIGQUIT", "SIGTERM", "SIGUSR1", "SIGUSR2"}
Dispositions == {"unknown", "success", "error", "signal", "stop", "exception", "continued"}

\* A tag, abstractly.  "$..." are placeholders for unbounded leaves.
T(k, a, b) == [k |-> k, a |-> a, b |-> b]
Unknown == T("none", "", "")
Shapes ==
       {T("path", "$path", ft) : ft \in FileTypes \cup {"-"}}
  \cup {T("fs", f, "") : f \in FsKinds}
  \cup {T("source", s, "") : s \in Sources}
  \cup {T("keyboard", "eof", "")}
  \cup {T("process", "$pid", "")}
  \cup {T("signal", s, "") : s \in NamedSignals \cup {"$signum"}}
  \cup {T("completion", d, "") : d \in {"unknown", "success", "continued"}}
  \cup {T("completion", "error", "$code64"), T("completion", "stop", "$code32"),
        T("completion", "exception", "$code32")}
  \cup {T("completion", "signal", s) : s \in NamedSignals \cup {"$signum"}}
  \cup {Unknown}

\* The documented JSON object of a tag: a function from field names to values ("-" = absent).
Fields == {"absolute", "filetype", "simple", "full", "source", "keycode", "pid", "signal", "disposition", "code"}
Obj(kind, f) == [x \in Fields \cup {"kind"} |-> IF x = "kind" THEN kind ELSE IF x \in DOMAIN f THEN f[x] ELSE "-"]
Doc(t) ==
    CASE t.k = "path"     -> Obj("path", [absolute |-> t.a, filetype |-> t.b])
      [] t.k = "fs"       -> Obj("fs", [simple |-> Simple(t.a), full |-> t.a])
      [] t.k = "source"   -> Obj("source", [source |-> t.a])
      [] t.k = "keyboard" -> Obj("keyboard", [keycode |-> t.a])
      [] t.k = "process"  -> Obj("process", [pid |-> t.a])
      [] t.k = "signal"   -> Obj("signal", [signal |-> t.a])
      [] t.k = "completion" ->
            IF t.a \in {"unknown", "success", "continued"} THEN Obj("completion", [disposition |-> t.a])
            ELSE IF t.a = "signal" THEN Obj("completion", [disposition |-> "signal", signal |-> t.b])
            ELSE Obj("completion", [disposition |-> t.a, code |-> t.b])
      [] OTHER -> Obj("none", <<>>)

\* The decoder.  Values of `code`: "-" absent, "0", "$code32" (non-zero, fits 32 bits),
\* "$code64" (non-zero, needs more than 32 bits).
Decode(o) ==
    CASE o.kind = "path" -> IF o.absolute # "-" THEN T("path", o.absolute, o.filetype) ELSE Unknown
      [] o.kind = "fs" ->
            IF o.full # "-" THEN T("fs", IF o.full \in FsKinds THEN o.full ELSE "Other", "")
            ELSE IF o.simple # "-" THEN T("fs", SimpleToFull(o.simple), "")
            ELSE Unknown
      [] o.kind = "source"   -> IF o.source # "-" THEN T("source", o.source, "") ELSE Unknown
      [] o.kind = "keyboard" -> IF o.keycode # "-" THEN T("keyboard", o.keycode, "") ELSE Unknown
      [] o.kind = "process"  -> IF o.pid # "-" THEN T("process", o.pid, "") ELSE Unknown
      [] o.kind = "signal"   -> IF o.signal # "-" THEN T("signal", o.signal, "") ELSE Unknown
      [] o.kind = "completion" ->
           (CASE o.disposition \in {"-", "unknown"} -> T("completion", "unknown", "")
              [] o.disposition \in {"success", "continued"} -> T("completion", o.disposition, "")
              [] o.disposition = "signal" ->
                    IF o.signal # "-" THEN T("completion", "signal", o.signal) ELSE Unknown
              [] o.disposition = "error" ->
                    IF o.code \in {"$code32", "$code64"} THEN T("completion", "error", o.code) ELSE Unknown
              [] o.disposition \in {"stop", "exception"} ->
                    IF o.code = "$code32" THEN T("completion", o.disposition, o.code) ELSE Unknown)
      [] OTHER -> Unknown

\* a code placeholder that fits 32 bits also fits 64: the error disposition keeps whichever it was given
Norm(t) == t

\* Objects of a known kind with any subset of the optional fields present
Rep(f) ==
    CASE f = "absolute" -> {"$path"} [] f = "filetype" -> {"file"} [] f = "simple" -> {"create"}
      [] f = "full" -> {"Create(File)", "Bogus(Thing)"} [] f = "source" -> {"keyboard"}
      [] f = "keycode" -> {"eof"} [] f = "pid" -> {"$pid"} [] f = "signal" -> {"SIGINT", "$signum"}
      [] f = "disposition" -> Dispositions [] f = "code" -> {"0", "$code32", "$code64"}
Kinds == {"path", "fs", "source", "keyboard", "process", "signal", "completion"}
Opt(f, full) == {"-"} \cup (IF full THEN Rep(f) ELSE {CHOOSE v \in Rep(f) : TRUE})
\* every subset of the optional fields present; the fields a kind looks at take all their
\* representative values, the others one
Looks(k) ==
    CASE k = "fs" -> {"full", "simple"} [] k = "signal" -> {"signal"}
      [] k = "completion" -> {"disposition", "code", "signal"} [] OTHER -> {}
AllObjects ==
    UNION {
      {[kind |-> k, absolute |-> a, filetype |-> ft, simple |-> si, full |-> fu, source |-> so,
        keycode |-> ke, pid |-> pi, signal |-> sg, disposition |-> di, code |-> co] :
          a \in Opt("absolute", FALSE), ft \in Opt("filetype", FALSE), si \in Opt("simple", "simple" \in Looks(k)),
          fu \in Opt("full", "full" \in Looks(k)), so \in Opt("source", FALSE), ke \in Opt("keycode", FALSE),
          pi \in Opt("pid", FALSE), sg \in Opt("signal", "signal" \in Looks(k)),
          di \in Opt("disposition", "disposition" \in Looks(k)), co \in Opt("code", "code" \in Looks(k))}
      : k \in Kinds }

VARIABLES c, done
Init ==
    /\ done = FALSE
    /\ IF Family = "shapes" THEN c \in {[shape |-> t, doc |-> Doc(t)] : t \in Shapes}
       ELSE c \in {[obj |-> o, tag |-> Decode(o), redoc |-> Doc(Decode(o))] : o \in AllObjects}
Next == ~done /\ done' = TRUE /\ UNCHANGED c

RoundTrip == Family = "shapes" => Decode(c.doc) = c.shape
NeverAnotherKind == Family = "decode" => c.tag.k \in {c.obj.kind, "none"}
Total == Family = "decode" => c.tag \in Shapes \/ c.tag.k \in Kinds \cup {"none"}
\* a document the encoder itself produced is never decoded to unknown
OwnDocsKnown == Family = "shapes" => (c.shape = Unknown <=> Decode(c.doc) = Unknown)

Emit == done => PrintT(<<"CASE", ToJson(c)>>)
=============================================================================
