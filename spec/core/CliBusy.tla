------------------------------- MODULE CliBusy -------------------------------
(***************************************************************************)
(* The CLI's action logic for --on-busy-update (crates/cli/src/config.rs): *)
(* per batch of changes the handler queues a "query" on the job; executed  *)
(* inside the job task, the query looks at whether the command is running  *)
(* and - per mode - does nothing, signals it, queues a graceful stop       *)
(* followed by a start, or (queue) arms a waiter task that starts the      *)
(* command again once the current run has ended and then resets the        *)
(* `queued` flag.  The job is reduced to what matters here: one normal     *)
(* control queue that is held back while a grace timer is armed, one       *)
(* process at a time.                                                      *)
(*                                                                         *)
(* WaiterAtomic = TRUE is the assumption under which the property is       *)
(* claimed: the waiter resets `queued` before another query can run (on a  *)
(* single-threaded runtime it always does; otherwise its wake-up latency   *)
(* must be below the debounce delay).  With FALSE, TLC exhibits the race   *)
(* in which a change handled in that gap is dropped.                       *)
(***************************************************************************)
EXTENDS Integers, Sequences, FiniteSets, TLC

CONSTANTS Modes, D, G, MaxChanges, MaxTime, Postpones, WaiterAtomic, Inf

VARIABLES now, run, timer, jobq, queued, waiter, windowEnd, changes, hist,
          Mode, Postpone      \* chosen once, at the start

cvars == <<now, run, timer, jobq, queued, waiter, windowEnd, changes, hist, Mode, Postpone>>

\* how a run of the command may behave: exits by itself after `self`, exits `sigd` after a signal
C(self, sigd) == [self |-> self, sigd |-> sigd]
Classes == {C(1, Inf), C(3, Inf), C(Inf, Inf), C(Inf, 1), C(Inf, 3)}

NoRun == [n |-> 0, alive |-> FALSE, exitAt |-> Inf, sigd |-> Inf, startedAt |-> -1]

Init ==
    /\ Mode \in Modes /\ Postpone \in Postpones
    /\ now = 0
    /\ run = NoRun /\ timer = -1
    /\ jobq = IF Postpone THEN <<>> ELSE <<"Q">>      \* the start-up event is a batch like any other
    /\ queued = FALSE /\ waiter = "none"
    /\ windowEnd = -1 /\ changes = 0
    /\ hist = [lastChange |-> -1, lastSpawn |-> -1, spawns |-> 0, signals |-> 0, kills |-> 0, batches |-> 0]

Change ==
    /\ changes < MaxChanges
    /\ changes' = changes + 1
    /\ windowEnd' = IF windowEnd = -1 THEN now + D ELSE windowEnd
    /\ hist' = [hist EXCEPT !.lastChange = now]
    /\ UNCHANGED <<now, run, timer, jobq, queued, waiter, Mode, Postpone>>

\* the debounce window closes: the handler queues its query
HandlerFire ==
    /\ windowEnd # -1 /\ now >= windowEnd
    /\ windowEnd' = -1
    /\ jobq' = Append(jobq, "Q")
    /\ hist' = [hist EXCEPT !.batches = @ + 1]
    /\ UNCHANGED <<now, run, timer, queued, waiter, changes, Mode, Postpone>>

Spawn(c) == [n |-> run.n + 1, alive |-> TRUE, exitAt |-> IF c.self = Inf THEN Inf ELSE now + c.self,
             sigd |-> c.sigd, startedAt |-> now]

JobStep ==
    /\ timer = -1 /\ jobq # <<>>
    /\ LET h == Head(jobq) rest == Tail(jobq) IN
       CASE h = "Q" ->
              IF run.alive THEN
                 CASE Mode = "do-nothing" -> /\ jobq' = rest /\ UNCHANGED <<run, timer, queued, waiter, hist>>
                   [] Mode = "signal" ->
                        /\ jobq' = rest
                        /\ run' = [run EXCEPT !.exitAt = IF run.sigd # Inf /\ now + run.sigd < @ THEN now + run.sigd ELSE @]
                        /\ hist' = [hist EXCEPT !.signals = @ + 1]
                        /\ UNCHANGED <<timer, queued, waiter, Mode, Postpone>>
                   [] Mode = "restart" -> /\ jobq' = rest \o <<"GS", "ST">> /\ UNCHANGED <<run, timer, queued, waiter, hist>>
                   [] Mode = "queue" ->
                        /\ jobq' = rest
                        /\ IF queued THEN UNCHANGED <<queued, waiter, Mode, Postpone>>
                           ELSE queued' = TRUE /\ waiter' = "waiting"
                        /\ UNCHANGED <<run, timer, hist, Mode, Postpone>>
              ELSE /\ jobq' = rest \o <<"ST">> /\ UNCHANGED <<run, timer, queued, waiter, hist>>
         [] h = "GS" ->
              /\ jobq' = rest
              /\ IF run.alive
                 THEN /\ timer' = now + G
                      /\ run' = [run EXCEPT !.exitAt = IF run.sigd # Inf /\ now + run.sigd < @ THEN now + run.sigd ELSE @]
                      /\ hist' = [hist EXCEPT !.signals = @ + 1]
                 ELSE UNCHANGED <<timer, run, hist, Mode, Postpone>>
              /\ UNCHANGED <<queued, waiter, Mode, Postpone>>
         [] h = "ST" ->
              /\ jobq' = rest
              /\ IF run.alive THEN UNCHANGED <<run, hist, Mode, Postpone>>
                 ELSE \E c \in Classes :
                        /\ run' = Spawn(c)
                        /\ hist' = [hist EXCEPT !.spawns = @ + 1, !.lastSpawn = now]
              /\ UNCHANGED <<timer, queued, waiter, Mode, Postpone>>
         [] h = "WR" ->        \* the waiter's run() marker: the waiter resumes
              /\ jobq' = rest
              /\ IF WaiterAtomic THEN queued' = FALSE /\ waiter' = "none"
                 ELSE waiter' = "resetting" /\ UNCHANGED queued
              /\ UNCHANGED <<run, timer, hist, Mode, Postpone>>
    /\ UNCHANGED <<now, windowEnd, changes, Mode, Postpone>>

Ended == /\ run' = [run EXCEPT !.alive = FALSE]
         /\ timer' = -1
         /\ waiter' = IF waiter = "waiting" THEN "woken" ELSE waiter

ChildExit ==
    /\ run.alive /\ now >= run.exitAt
    /\ Ended
    /\ UNCHANGED <<now, jobq, queued, windowEnd, changes, hist, Mode, Postpone>>

TimerFire ==
    /\ timer # -1 /\ now >= timer /\ run.alive
    /\ Ended
    /\ hist' = [hist EXCEPT !.kills = @ + 1]
    /\ UNCHANGED <<now, jobq, queued, windowEnd, changes, Mode, Postpone>>

\* queue mode: to_wait() resolved; the waiter calls start() and run()
WaiterStart ==
    /\ waiter = "woken"
    /\ jobq' = jobq \o <<"ST", "WR">>
    /\ waiter' = "started"
    /\ UNCHANGED <<now, run, timer, queued, windowEnd, changes, hist, Mode, Postpone>>

WaiterReset ==
    /\ waiter = "resetting"
    /\ queued' = FALSE /\ waiter' = "none"
    /\ UNCHANGED <<now, run, timer, jobq, windowEnd, changes, hist, Mode, Postpone>>

Enabled0 ==
    \/ (windowEnd # -1 /\ now >= windowEnd)
    \/ (timer = -1 /\ jobq # <<>>)
    \/ (run.alive /\ now >= run.exitAt)
    \/ (timer # -1 /\ now >= timer /\ run.alive)
    \/ (WaiterAtomic /\ waiter \in {"woken", "resetting"})      \* otherwise: arbitrary wake-up latency

Tick == /\ ~Enabled0 /\ now < MaxTime /\ now' = now + 1
        /\ UNCHANGED <<run, timer, jobq, queued, waiter, windowEnd, changes, hist, Mode, Postpone>>

Next == Change \/ HandlerFire \/ JobStep \/ ChildExit \/ TimerFire \/ WaiterStart \/ WaiterReset \/ Tick
Spec == Init /\ [][Next]_cvars

---------------------------------------------------------------------------
Quiescent ==
    /\ ~Enabled0 /\ windowEnd = -1 /\ changes = MaxChanges
    /\ (run.alive => run.exitAt = Inf) /\ timer = -1

\* in restart and queue modes the last change is followed by a run that started after it
\* (queue: provided the current run ends at all)
Freshness ==
    (Quiescent /\ Mode \in {"restart", "queue"} /\ hist.lastChange >= 0 /\ ~(Mode = "queue" /\ queued))
        => hist.lastSpawn >= hist.lastChange
FirstRun == (~Postpone /\ now > 0) => hist.spawns >= 1
PostponedWaits == (Postpone /\ hist.batches = 0) => hist.spawns = 0
DoNothingInert == Mode = "do-nothing" => hist.signals = 0 /\ hist.kills = 0
SignalOnlySignals == Mode = "signal" => hist.kills = 0
QueueInert == Mode = "queue" => hist.signals = 0 /\ hist.kills = 0
\* never more runs than batches (plus the start-up run): a burst of changes queues one run, not many
OneRunPerBatch == hist.spawns <= hist.batches + (IF Postpone THEN 0 ELSE 1)
KillAtTimeout == timer # -1 => now <= timer
\* the queued flag is only set while a waiter exists to reset it
QueuedHasWaiter == queued => waiter # "none"
=============================================================================
