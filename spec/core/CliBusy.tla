------------------------------- MODULE CliBusy -------------------------------
(***************************************************************************)
(* The CLI's action logic for --on-busy-update (crates/cli/src/config.rs): *)
(* per batch of changes the handler queues a "query" on the job; executed  *)
(* inside the job task, the query looks at whether the command is running  *)
(* and - per mode - does nothing, signals it, queues a graceful stop       *)
(* followed by a start, or (queue) arms a waiter task that starts the      *)
(* command again once the current run has ended and then resets the        *)
(* `queued` flag.  The job is reduced to what matters here: one normal     *)
(* control queue that is held back while a grace timer is armed, one       *)
(* process at a time.                                                      *)
(*                                                                         *)
(* --delay-run (Delay > 0): every batch first queues a sleep that the job   *)
(* task awaits inline - while it sleeps it takes no control, collects no   *)
(* exit status and fires no timer - and only then the query; sleeps of     *)
(* batches that come faster than the delay pile up in the queue.           *)
(*                                                                         *)
(* WaiterAtomic = TRUE is the assumption under which the property is       *)
(* claimed: the waiter resets `queued` before another query can run (on a  *)
(* single-threaded runtime it always does; otherwise its wake-up latency   *)
(* must be below the debounce delay).  With FALSE, TLC exhibits the race   *)
(* in which a change handled in that gap is dropped.                       *)
(***************************************************************************)
EXTENDS Integers, Sequences, FiniteSets, TLC

CONSTANTS Modes, Ds, Gs, MaxChanges, MaxTime, Postpones, Delays, WaiterAtomic, Inf

VARIABLES now, run, timer, jobq, queued, waiter, windowEnd, changes, hist, sleepUntil,
          Mode, Postpone, Delay, D, G      \* chosen once, at the start: the mode, --postpone, --delay-run,
                                           \* the debounce delay and the stop timeout

cvars == <<now, run, timer, jobq, queued, waiter, windowEnd, changes, hist, sleepUntil, Mode, Postpone, Delay, D, G>>

\* what the handler queues for a batch: with --delay-run a sleep first, then the query
Batch == IF Delay > 0 THEN <<"DL", "Q">> ELSE <<"Q">>
\* the job task is awaiting a --delay-run sleep
Sleeping == now < sleepUntil

\* how a run of the command may behave: exits by itself after `self`, exits `sigd` after a signal
C(self, sigd) == [self |-> self, sigd |-> sigd]
Classes == {C(1, Inf), C(3, Inf), C(Inf, Inf), C(Inf, 1), C(Inf, 3)}

NoRun == [n |-> 0, alive |-> FALSE, exitAt |-> Inf, sigd |-> Inf, startedAt |-> -1]

Init ==
    /\ Mode \in Modes /\ Postpone \in Postpones /\ Delay \in Delays /\ D \in Ds /\ G \in Gs
    /\ now = 0 /\ sleepUntil = -1
    /\ run = NoRun /\ timer = -1
    /\ jobq = IF Postpone THEN <<>> ELSE Batch      \* the start-up event is a batch like any other
    /\ queued = FALSE /\ waiter = "none"
    /\ windowEnd = -1 /\ changes = 0
    /\ hist = [lastChange |-> -1, lastSpawn |-> -1, spawns |-> 0, signals |-> 0, kills |-> 0, batches |-> 0]

Change ==
    /\ changes < MaxChanges
    /\ changes' = changes + 1
    /\ windowEnd' = IF windowEnd = -1 THEN now + D ELSE windowEnd
    /\ hist' = [hist EXCEPT !.lastChange = now]
    /\ UNCHANGED <<sleepUntil, now, run, timer, jobq, queued, waiter, Mode, Postpone, Delay, D, G>>

\* the debounce window closes: the handler queues its query
HandlerFire ==
    /\ windowEnd # -1 /\ now >= windowEnd
    /\ windowEnd' = -1
    /\ jobq' = jobq \o Batch
    /\ hist' = [hist EXCEPT !.batches = @ + 1]
    /\ UNCHANGED <<sleepUntil, now, run, timer, queued, waiter, changes, Mode, Postpone, Delay, D, G>>

Spawn(c) == [n |-> run.n + 1, alive |-> TRUE, exitAt |-> IF c.self = Inf THEN Inf ELSE now + c.self,
             sigd |-> c.sigd, startedAt |-> now]

JobStep ==
    /\ timer = -1 /\ jobq # <<>> /\ ~Sleeping
    /\ waiter # "sent"          \* a control of high priority (the waiter's to_wait) goes first
    /\ sleepUntil' = IF Head(jobq) = "DL" THEN now + Delay ELSE sleepUntil
    /\ LET h == Head(jobq) rest == Tail(jobq) IN
       CASE h = "DL" ->      \* the --delay-run sleep: awaited inline by the job task
              /\ jobq' = rest /\ UNCHANGED <<run, timer, queued, waiter, hist>>
         [] h = "Q" ->
              IF run.alive THEN
                 CASE Mode = "do-nothing" -> /\ jobq' = rest /\ UNCHANGED <<run, timer, queued, waiter, hist>>
                   [] Mode = "signal" -> /\ jobq' = rest \o <<"SG">> /\ UNCHANGED <<run, timer, queued, waiter, hist>>
                   [] Mode = "restart" -> /\ jobq' = rest \o <<"GS", "ST">> /\ UNCHANGED <<run, timer, queued, waiter, hist>>
                   [] Mode = "queue" ->
                        /\ jobq' = rest
                        /\ IF queued THEN UNCHANGED <<queued, waiter, Mode, Postpone, Delay, D, G>>
                           ELSE queued' = TRUE /\ waiter' = "spawned"
                        /\ UNCHANGED <<run, timer, hist, Mode, Postpone, Delay, D, G>>
              ELSE /\ jobq' = rest \o <<"ST">> /\ UNCHANGED <<run, timer, queued, waiter, hist>>
         [] h = "SG" ->        \* the signal control that the query queued (signal mode)
              /\ jobq' = rest
              /\ IF run.alive
                 THEN /\ run' = [run EXCEPT !.exitAt = IF run.sigd # Inf /\ now + run.sigd < @ THEN now + run.sigd ELSE @]
                      /\ hist' = [hist EXCEPT !.signals = @ + 1]
                 ELSE UNCHANGED <<run, hist>>
              /\ UNCHANGED <<timer, queued, waiter>>
         [] h = "GS" ->
              /\ jobq' = rest
              /\ IF run.alive
                 THEN /\ timer' = now + G
                      /\ run' = [run EXCEPT !.exitAt = IF run.sigd # Inf /\ now + run.sigd < @ THEN now + run.sigd ELSE @]
                      /\ hist' = [hist EXCEPT !.signals = @ + 1]
                 ELSE UNCHANGED <<timer, run, hist, Mode, Postpone, Delay, D, G>>
              /\ UNCHANGED <<queued, waiter, Mode, Postpone, Delay, D, G>>
         [] h = "ST" ->
              /\ jobq' = rest
              /\ IF run.alive THEN UNCHANGED <<run, hist, Mode, Postpone, Delay, D, G>>
                 ELSE \E c \in Classes :
                        /\ run' = Spawn(c)
                        /\ hist' = [hist EXCEPT !.spawns = @ + 1, !.lastSpawn = now]
              /\ UNCHANGED <<timer, queued, waiter, Mode, Postpone, Delay, D, G>>
         [] h = "WR" ->        \* the waiter's run() marker: the waiter resumes
              /\ jobq' = rest
              /\ IF WaiterAtomic THEN queued' = FALSE /\ waiter' = "none"
                 ELSE waiter' = "resetting" /\ UNCHANGED queued
              /\ UNCHANGED <<run, timer, hist, Mode, Postpone, Delay, D, G>>
    /\ UNCHANGED <<now, windowEnd, changes, Mode, Postpone, Delay, D, G>>

Ended == /\ run' = [run EXCEPT !.alive = FALSE]
         /\ timer' = -1
         /\ waiter' = IF waiter = "waiting" THEN "woken" ELSE waiter

ChildExit ==
    /\ run.alive /\ now >= run.exitAt /\ ~Sleeping
    /\ Ended
    /\ UNCHANGED <<sleepUntil, now, jobq, queued, windowEnd, changes, hist, Mode, Postpone, Delay, D, G>>

TimerFire ==
    /\ timer # -1 /\ now >= timer /\ run.alive /\ ~Sleeping
    /\ Ended
    /\ hist' = [hist EXCEPT !.kills = @ + 1]
    /\ UNCHANGED <<sleepUntil, now, jobq, queued, windowEnd, changes, Mode, Postpone, Delay, D, G>>

\* queue mode: the waiter task, spawned by the query, gets to run and sends its to_wait() - a control of
\* high priority - to the job; how soon is up to the scheduler (on the single-threaded runtime: when the
\* job task next has nothing to do)
WaiterSend ==
    /\ waiter = "spawned"
    /\ waiter' = "sent"
    /\ UNCHANGED <<sleepUntil, now, run, timer, jobq, queued, windowEnd, changes, hist, Mode, Postpone, Delay, D, G>>

\* the job task takes the to_wait(): it waits for the end of the run in progress at that moment - which
\* may already be a later one than the run the query saw - or resolves at once if there is none
JobToWait ==
    /\ waiter = "sent" /\ ~Sleeping
    /\ waiter' = IF run.alive THEN "waiting" ELSE "woken"
    /\ UNCHANGED <<sleepUntil, now, run, timer, jobq, queued, windowEnd, changes, hist, Mode, Postpone, Delay, D, G>>

\* to_wait() resolved; the waiter calls start() and run()
WaiterStart ==
    /\ waiter = "woken"
    /\ jobq' = jobq \o <<"ST", "WR">>
    /\ waiter' = "started"
    /\ UNCHANGED <<sleepUntil, now, run, timer, queued, windowEnd, changes, hist, Mode, Postpone, Delay, D, G>>

WaiterReset ==
    /\ waiter = "resetting"
    /\ queued' = FALSE /\ waiter' = "none"
    /\ UNCHANGED <<sleepUntil, now, run, timer, jobq, windowEnd, changes, hist, Mode, Postpone, Delay, D, G>>

Enabled0 ==
    \/ (windowEnd # -1 /\ now >= windowEnd)
    \/ (timer = -1 /\ jobq # <<>> /\ ~Sleeping)
    \/ (run.alive /\ now >= run.exitAt /\ ~Sleeping)
    \/ (timer # -1 /\ now >= timer /\ run.alive /\ ~Sleeping)
    \/ (waiter = "sent" /\ ~Sleeping)
    \/ (WaiterAtomic /\ waiter \in {"spawned", "woken", "resetting"})      \* otherwise: arbitrary wake-up latency

Tick == /\ ~Enabled0 /\ now < MaxTime /\ now' = now + 1
        /\ UNCHANGED <<sleepUntil, run, timer, jobq, queued, waiter, windowEnd, changes, hist, Mode, Postpone, Delay, D, G>>

Next == Change \/ HandlerFire \/ JobStep \/ ChildExit \/ TimerFire \/ WaiterSend \/ JobToWait \/ WaiterStart \/ WaiterReset \/ Tick
Spec == Init /\ [][Next]_cvars

---------------------------------------------------------------------------
Quiescent ==
    /\ ~Enabled0 /\ ~Sleeping /\ windowEnd = -1 /\ changes = MaxChanges
    /\ (run.alive => run.exitAt = Inf) /\ timer = -1

\* in restart and queue modes the last change is followed by a run that started after it
\* (queue: provided the current run ends at all)
Freshness ==
    (Quiescent /\ Mode \in {"restart", "queue"} /\ hist.lastChange >= 0 /\ ~(Mode = "queue" /\ queued))
        => hist.lastSpawn >= hist.lastChange
\* (with --delay-run the sleeps of early batches pile up in front of the first start: once they are through)
FirstRun == (~Postpone /\ now > 0 /\ (Delay = 0 \/ (~Enabled0 /\ ~Sleeping /\ jobq = <<>>))) => hist.spawns >= 1
PostponedWaits == (Postpone /\ hist.batches = 0) => hist.spawns = 0
DoNothingInert == Mode = "do-nothing" => hist.signals = 0 /\ hist.kills = 0
SignalOnlySignals == Mode = "signal" => hist.kills = 0
QueueInert == Mode = "queue" => hist.signals = 0 /\ hist.kills = 0
\* never more runs than batches (plus the start-up run): a burst of changes queues one run, not many
OneRunPerBatch == hist.spawns <= hist.batches + (IF Postpone THEN 0 ELSE 1)
KillAtTimeout == timer # -1 => now <= timer
\* the queued flag is only set while a waiter exists to reset it
QueuedHasWaiter == queued => waiter # "none"
=============================================================================
