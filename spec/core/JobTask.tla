------------------------------ MODULE JobTask ------------------------------
(***************************************************************************)
(* The job task of watchexec-supervisor (crates/supervisor/src/job/):      *)
(* three control queues, the grace timer, the command state and the flags  *)
(* behind tickets.  One action per critical section of task.rs /           *)
(* priority.rs; one Send action per public method of Job.                  *)
(*                                                                         *)
(* The module is written to be bound: every task step also computes `out`, *)
(* the exact sequence of observations (calls on the child handle, hook and *)
(* marker invocations, flag raises, cfg(watchexec_verif) trace points)     *)
(* that the real code produces for that step.  JobTrace.tla consumes       *)
(* recorded traces against it; MC_Job*.tla model-checks it.                *)
(*                                                                         *)
(* Time is an integer.  Tick is enabled only when no zero-time step of the *)
(* task is enabled (what tokio's paused clock implements).                 *)
(***************************************************************************)
EXTENDS Integers, Sequences, FiniteSets, TLC, JobDefs

CONSTANTS
    Inf,        \* an integer beyond every time of the run: "never"
    Fixes,      \* which repairs of the pinned tree the modelled code contains
    Tracing     \* TRUE: compute `out`; FALSE: leave it empty (model checking)

AllFixes == {"gstop_flag", "restart_once", "closed_exit", "wait_pending",
             "biased", "restart_spawnfail_flag"}

VARIABLES
    now,        \* clock
    qU, qH, qN, \* urgent / high / normal control queues (FIFO)
    closed,     \* every Job handle has been dropped
    parked,     \* the task is inside recv()'s inner select! (only tracked when not "biased")
    kids,       \* scripted behaviour of the n-th spawned child
    S,          \* the task's local state (record, see InitS)
    sent,       \* ticket ids handed out
    cancelled,  \* ticket ids handed out already resolved (job was gone)
    nextSn,     \* sequence number for sent control messages
    viol        \* history: set of property names violated by some step

vars == <<now, qU, qH, qN, closed, parked, kids, S, sent, cancelled, nextSn, viol>>

---------------------------------------------------------------------------
\* Observations: uniform records (Ev, in JobDefs) so that they can be compared field by field.

NoTimer == [on |-> FALSE, until |-> 0, id |-> 0, restart |-> FALSE]
NoKid   == [n |-> 0, exitAt |-> Inf, status |-> "", signalled |-> FALSE]
NoFlag  == [on |-> FALSE, id |-> 0]
NoAsync == [on |-> FALSE, until |-> 0, id |-> 0]

InitS == [
    cs      |-> "pending",     \* CommandState: pending | running | finished
    st      |-> "",            \* status of a finished command
    prev    |-> "none",        \* previous_run as a hook / run() closure sees it
    nsp     |-> 0,             \* spawn attempts so far
    kid     |-> NoKid,         \* the child held in CommandState::Running
    timer   |-> NoTimer,       \* stop_timer
    onEnd   |-> <<>>,          \* on_end: flags (ticket ids) to raise at the next process end
    onEndRestart |-> NoFlag,   \* on_end_restart
    raised  |-> {},            \* control flags raised (ticket ids; 0 = not handed out)
    gone    |-> FALSE,         \* the job's `gone` flag
    task    |-> "run",         \* run | ended | panicked
    hookTag |-> -1,            \* which spawn hook is installed (-1 none)
    errh    |-> -1,            \* which error handler is installed (-1 none)
    afn     |-> NoAsync,       \* a run_async() future being awaited: the task does nothing else until it is done
    live    |-> {},            \* history: children spawned and neither reaped nor dropped
    credit  |-> 0,             \* history: graceful restarts signalled and not yet continued
    out     |-> <<>> ]         \* observations of the current step

Class(s) == IF s.cs = "finished" THEN "finished:" \o s.st ELSE s.cs

Emit(s, e) == IF Tracing THEN [s EXCEPT !.out = Append(@, e)] ELSE s

Raise(s, id) ==
    Emit([s EXCEPT !.raised = IF id > 0 THEN @ \cup {id} ELSE @], Ev("raise", id, 0, "", "", 0))

RECURSIVE RaiseEach(_, _)
RaiseEach(s, ids) ==
    IF ids = <<>> THEN s ELSE RaiseEach(Raise(s, Head(ids)), Tail(ids))

RaiseOnEnd(s) == RaiseEach([s EXCEPT !.onEnd = <<>>], s.onEnd)

ErrCall(s, msg) == IF s.errh # -1 THEN Emit(s, Ev("err", 0, 0, msg, "", s.errh)) ELSE s

KidOf(n) == IF n <= Len(kids) THEN kids[n] ELSE kids[Len(kids)]

\* command.to_spawnable(); spawn_hook.call(); command_state.spawn()
DoSpawn(s, t) ==
    LET n  == s.nsp + 1
        k  == KidOf(n)
        s1 == [s EXCEPT !.nsp = n]
        s2 == IF s.hookTag # -1
              THEN Emit(s1, Ev("hook", 0, n, "pending", s.prev, s.hookTag)) ELSE s1
    IN  IF k.fail
        THEN [ok |-> FALSE,
              s  |-> ErrCall(Emit(s2, Ev("spawn_failed", 0, n, "", "", s.hookTag)),
                             "injected spawn failure")]
        ELSE [ok |-> TRUE,
              s  |-> Emit([s2 EXCEPT
                             !.cs = "running",
                             !.live = @ \cup {n},
                             !.kid = [n |-> n,
                                      exitAt |-> IF k.selfAt = -1 THEN Inf ELSE t + k.selfAt,
                                      status |-> "exit:" \o ToString(k.code),
                                      signalled |-> FALSE]],
                          Ev("spawn", 0, n, "", "", s.hookTag))]

\* child.kill().await; child.wait().await; command_state = Finished
KillReap(s, t) ==
    LET n  == s.kid.n
        k  == KidOf(n)
        s1 == Emit(s, Ev("kill", 0, n, "", "", 0))
        status == IF s.kid.exitAt <= t THEN s.kid.status ELSE "sig:9"
        w  == Ev("wait_ret", 0, n, status, "", 0)
    IN  IF k.killFail
        THEN [ok |-> FALSE, s |-> ErrCall(s1, "injected kill failure")]
        ELSE [ok |-> TRUE,
              s  |-> [Emit(Emit(Emit(s1, w), w), Ev("drop", 0, n, "", "", 0))
                         EXCEPT !.cs = "finished", !.st = status, !.kid = NoKid,
                                !.live = @ \ {n}]]

\* signal_child()
SignalChild(s, sig, t) ==
    LET n  == s.kid.n
        k  == KidOf(n)
        s1 == Emit(s, Ev("signal", 0, n, "", "", sig))
        kd == s.kid
        kd2 == IF kd.exitAt <= t THEN kd
               ELSE IF sig = 9 THEN [kd EXCEPT !.exitAt = t, !.status = "sig:9"]
               ELSE IF kd.signalled THEN kd
               ELSE IF k.sigd # -1 /\ t + k.sigd < kd.exitAt
                    THEN [kd EXCEPT !.signalled = TRUE, !.exitAt = t + k.sigd,
                                    !.status = "sig:" \o ToString(sig)]
                    ELSE [kd EXCEPT !.signalled = TRUE]
    IN  IF k.sigFail
        THEN [ok |-> FALSE, s |-> ErrCall(s1, "injected signal failure")]
        ELSE [ok |-> TRUE, s |-> [s1 EXCEPT !.kid = kd2]]

ResetTo(s) == [s EXCEPT !.prev = Class(s), !.cs = "pending", !.st = ""]

\* The match arms of the control handler.  Returns the new local state; .task = "break"
\* stands for Loop::Break.
Handle(s0, m, t) ==
    LET s == Emit(s0, Ev("deq", m.id, 0, m.ctl, "", 0)) IN
    CASE m.ctl = "Start" ->
            IF s.cs = "running" THEN Raise(s, m.id)
            ELSE Raise(DoSpawn(ResetTo(s), t).s, m.id)
      [] m.ctl = "Stop" ->
            IF s.cs = "running"
            THEN LET r == KillReap(s, t) IN
                 IF r.ok THEN Raise(RaiseOnEnd(r.s), m.id) ELSE Raise(r.s, m.id)
            ELSE Raise(s, m.id)
      [] m.ctl = "GracefulStop" ->
            IF s.cs = "running"
            THEN LET r == SignalChild(s, m.sig, t) IN
                 IF r.ok
                 THEN [r.s EXCEPT !.timer = [on |-> TRUE, until |-> t + m.grace,
                                             id |-> m.id, restart |-> FALSE]]
                 ELSE Raise(r.s, m.id)
            ELSE Raise(s, m.id)
      [] m.ctl = "TryRestart" ->
            IF s.cs = "running"
            THEN LET r == KillReap(s, t) IN
                 IF r.ok
                 THEN Raise(DoSpawn(RaiseOnEnd(ResetTo(r.s)), t).s, m.id)
                 ELSE Raise(r.s, m.id)
            ELSE Raise(s, m.id)
      [] m.ctl = "TryGracefulRestart" ->
            IF s.cs = "running"
            THEN LET r == SignalChild(s, m.sig, t) IN
                 IF r.ok
                 THEN [r.s EXCEPT !.timer = [on |-> TRUE, until |-> t + m.grace,
                                             id |-> m.id, restart |-> TRUE],
                                  !.onEndRestart = [on |-> TRUE, id |-> m.id],
                                  !.credit = @ + 1]
                 ELSE Raise(r.s, m.id)
            ELSE Raise(s, m.id)
      [] m.ctl = "ContinueTryGracefulRestart" ->
            LET sa == IF "restart_once" \in Fixes
                      THEN [s EXCEPT !.onEndRestart = NoFlag] ELSE s
                \* sent from outside through Job::control() it is a restart of its own, not the
                \* continuation of a graceful one
                sb == IF m.tag = 1 THEN sa ELSE [sa EXCEPT !.credit = @ - 1]
            IN  IF sb.cs = "running"
                THEN LET r == KillReap(sb, t) IN
                     IF r.ok
                     THEN Raise(DoSpawn(ResetTo(RaiseOnEnd(r.s)), t).s, m.id)
                     ELSE Raise(r.s, m.id)
                ELSE Raise(DoSpawn(ResetTo(sb), t).s, m.id)
      [] m.ctl = "Signal" ->
            IF s.cs = "running" THEN Raise(SignalChild(s, m.sig, t).s, m.id)
            ELSE Raise(s, m.id)
      [] m.ctl = "Delete" -> [Raise(s, m.id) EXCEPT !.task = "break"]
      [] m.ctl = "NextEnding" ->
            IF s.cs = "finished" \/ ("wait_pending" \in Fixes /\ s.cs = "pending")
            THEN Raise(s, m.id)
            ELSE [s EXCEPT !.onEnd = Append(@, m.id)]
      [] m.ctl = "SyncFunc" ->
            Raise(Emit(s, Ev("marker", m.id, 0, Class(s), s.prev, 0)), m.id)
      [] m.ctl = "AsyncFunc" ->
            \* the closure runs now (it sees the state as it is); the future it returns is awaited
            \* by the task itself; the control is done - its flag raised - only afterwards
            LET s1 == Emit(s, Ev("marker", m.id, 0, Class(s), s.prev, 0)) IN
            IF m.grace = 0 THEN Raise(Emit(s1, Ev("marker_end", m.id, 0, "", "", 0)), m.id)
            ELSE [s1 EXCEPT !.afn = [on |-> TRUE, until |-> t + m.grace, id |-> m.id]]
      [] m.ctl \in {"SetSyncSpawnHook", "SetAsyncSpawnHook"} -> Raise([s EXCEPT !.hookTag = m.tag], m.id)
      [] m.ctl = "UnsetSpawnHook" -> Raise([s EXCEPT !.hookTag = -1], m.id)
      [] m.ctl \in {"SetSyncErrorHandler", "SetAsyncErrorHandler"} -> Raise([s EXCEPT !.errh = m.tag], m.id)
      [] m.ctl = "UnsetErrorHandler" -> Raise([s EXCEPT !.errh = -1], m.id)

\* After the main loop: raise `gone`; the task's locals (a child still held) are dropped.
ExitLoop(s) ==
    LET s1 == Emit(Emit(s, Ev("loop_exit", 0, 0, "", "", 0)), Ev("raise", -1, 0, "", "", 0))
        s2 == IF s1.cs = "running" THEN Emit(s1, Ev("drop", 0, s1.kid.n, "", "", 0)) ELSE s1
    IN  [s2 EXCEPT !.gone = TRUE, !.task = "ended", !.live = {}]

Finish(s) == IF s.task = "break" THEN ExitLoop(s) ELSE s

\* The wait branch of the main select!: the child's exit is observed.
WaitBranch(s, t) ==
    LET n      == s.kid.n
        status == s.kid.status
        s1 == Emit(Emit(Emit(s, Ev("wait_ret", 0, n, status, "", 0)),
                        Ev("drop", 0, n, "", "", 0)),
                   Ev("waited", 0, 0, "", "", 1))
        s2 == [s1 EXCEPT !.cs = "finished", !.st = status, !.kid = NoKid, !.live = @ \ {n}]
        s3 == IF s.timer.on /\ ~s.timer.restart /\ "gstop_flag" \in Fixes
              THEN Raise(s2, s.timer.id) ELSE s2
        s4 == RaiseOnEnd([s3 EXCEPT !.timer = NoTimer])
    IN  IF s4.onEndRestart.on
        THEN LET f == s4.onEndRestart.id
                 r == DoSpawn(ResetTo([s4 EXCEPT !.onEndRestart = NoFlag, !.credit = @ - 1]), t)
             IN  IF r.ok \/ "restart_spawnfail_flag" \in Fixes THEN Raise(r.s, f) ELSE r.s
        ELSE s4

\* recv() returning the timer's control
TimerFire(s, t) ==
    LET tm == s.timer
        s1 == Emit([s EXCEPT !.timer = NoTimer],
                   Ev("timer_fired", tm.id, 0, "", "", IF tm.restart THEN 1 ELSE 0))
        m  == [ctl |-> IF tm.restart THEN "ContinueTryGracefulRestart" ELSE "Stop",
               id |-> tm.id, sig |-> 0, grace |-> 0, tag |-> 0, sn |-> 0]
    IN  Handle(s1, m, t)

---------------------------------------------------------------------------
\* What each public method of Job enqueues: Expand, in JobDefs.

RECURSIVE Number(_, _)
Number(ms, from) ==
    IF ms = <<>> THEN <<>>
    ELSE <<[Head(ms) EXCEPT !.sn = from]>> \o Number(Tail(ms), from + 1)

\* Job::<op>() called by a holder of a handle.  send_controls() hands out an already resolved
\* ticket when the job is gone; a send to a task that ended is dropped.
Send(op, id, sig, grace, tag) ==
    /\ ~closed
    /\ sent' = sent \cup {id}
    /\ IF S.gone
       THEN /\ cancelled' = cancelled \cup {id}
            /\ UNCHANGED <<qU, qH, qN, nextSn>>
       ELSE LET x  == Expand(op, id, sig, grace, tag)
                ms == Number(x.ms, nextSn)
            IN  /\ nextSn' = nextSn + Len(ms)
                /\ cancelled' = cancelled
                /\ IF S.task # "run" THEN UNCHANGED <<qU, qH, qN>>
                   ELSE /\ qU' = IF x.q = "U" THEN qU \o ms ELSE qU
                        /\ qH' = IF x.q = "H" THEN qH \o ms ELSE qH
                        /\ qN' = IF x.q = "N" THEN qN \o ms ELSE qN
    /\ UNCHANGED <<closed, parked, kids, S, viol>>     \* the caller says what `now` does

\* The last Job handle is dropped.
DropHandle ==
    /\ ~closed
    /\ closed' = TRUE
    /\ UNCHANGED <<qU, qH, qN, parked, kids, S, sent, cancelled, nextSn, viol>>

---------------------------------------------------------------------------
\* The task's main loop: select! { wait(), if running; recv(&mut stop_timer) }

Biased == "biased" \in Fixes

Awaiting      == S.afn.on          \* inside `fut.await` of an AsyncFunc: neither branch of the select! is polled
WaitReady(t)  == S.task = "run" /\ ~Awaiting /\ S.cs = "running" /\ S.kid.exitAt <= t
TimerPast(t)  == S.timer.on /\ S.timer.until <= t

\* which source recv() would return from on a fresh poll ("none": it parks)
FreshSource(t) ==
    IF TimerPast(t) THEN "T"
    ELSE IF qU # <<>> THEN "U"
    ELSE IF qH # <<>> THEN "H"
    ELSE IF closed /\ "closed_exit" \notin Fixes THEN "X"  \* pinned tree: a closed queue wins
    ELSE IF S.timer.on THEN "none"
    ELSE IF qN # <<>> THEN "N"
    ELSE IF closed THEN "X"           \* every queue closed and drained: recv() returns None
    ELSE "none"

\* sources recv() may return from when it was parked in the unbiased inner select!
ParkedSources(t) ==
    (IF TimerPast(t) THEN {"T"} ELSE {})
    \cup (IF qU # <<>> THEN {"U"} ELSE {})
    \cup (IF qH # <<>> THEN {"H"} ELSE {})
    \cup (IF ~S.timer.on /\ qN # <<>> THEN {"N"} ELSE {})
    \cup (IF closed /\ qU = <<>> THEN {"X"} ELSE {})

Sources(t) ==
    IF S.task # "run" \/ Awaiting THEN {}
    ELSE IF ~Biased /\ parked THEN ParkedSources(t)
    ELSE IF FreshSource(t) = "none" THEN {} ELSE {FreshSource(t)}

PrioViolation(src) ==
    \/ src = "N" /\ (qU # <<>> \/ qH # <<>>)
    \/ src = "H" /\ qU # <<>>

\* One iteration of the loop taking the recv branch from source `src`, at time t.
RecvStep(src, t) ==
    /\ src \in Sources(t)
    /\ parked' = FALSE
    /\ viol' = IF PrioViolation(src) THEN viol \cup {"priority"} ELSE viol
    /\ CASE src = "T" ->
              /\ S' = Finish(TimerFire([S EXCEPT !.out = <<>>], t))
              /\ UNCHANGED <<qU, qH, qN>>
         [] src = "U" ->
              /\ S' = Finish(Handle([S EXCEPT !.out = <<>>], Head(qU), t))
              /\ qU' = Tail(qU) /\ UNCHANGED <<qH, qN>>
         [] src = "H" ->
              /\ S' = Finish(Handle([S EXCEPT !.out = <<>>], Head(qH), t))
              /\ qH' = Tail(qH) /\ UNCHANGED <<qU, qN>>
         [] src = "N" ->
              /\ S' = Finish(Handle([S EXCEPT !.out = <<>>], Head(qN), t))
              /\ qN' = Tail(qN) /\ UNCHANGED <<qU, qH>>
         [] src = "X" ->
              \* recv() returned None: every handle is gone
              /\ S' = IF "closed_exit" \in Fixes
                      THEN ExitLoop([S EXCEPT !.out = <<>>])
                      ELSE [S EXCEPT !.out = <<>>,
                                     !.task = IF S.cs = "running" THEN "run" ELSE "panicked"]
              /\ UNCHANGED <<qU, qH, qN>>
    /\ now' = t
    /\ UNCHANGED <<closed, kids, sent, cancelled, nextSn>>

WaitStep(t) ==
    /\ WaitReady(t)
    /\ parked' = FALSE
    /\ S' = WaitBranch([S EXCEPT !.out = <<>>], t)
    /\ now' = t
    /\ UNCHANGED <<qU, qH, qN, closed, kids, sent, cancelled, nextSn, viol>>

\* The awaited future of an AsyncFunc completes: the control is done.
AsyncReady(t) == S.task = "run" /\ Awaiting /\ S.afn.until <= t
AsyncDoneStep(t) ==
    /\ AsyncReady(t)
    /\ parked' = FALSE
    /\ S' = Finish(Raise(Emit([S EXCEPT !.out = <<>>, !.afn = NoAsync], Ev("marker_end", S.afn.id, 0, "", "", 0)), S.afn.id))
    /\ now' = t
    /\ UNCHANGED <<qU, qH, qN, closed, kids, sent, cancelled, nextSn, viol>>

\* Without "closed_exit" a closed queue with a running child leaves only the wait branch.
ClosedStuck == closed /\ "closed_exit" \notin Fixes /\ S.cs = "running"

TaskEnabled(t) ==
    \/ WaitReady(t)
    \/ AsyncReady(t)
    \/ (Sources(t) # {} /\ ~(ClosedStuck /\ Sources(t) = {"X"}))

\* recv() found nothing and parks in its inner select! (tracked only for the unbiased code)
Park ==
    /\ ~Biased /\ ~parked /\ S.task = "run"
    /\ ~TaskEnabled(now)
    /\ parked' = TRUE
    /\ UNCHANGED <<now, qU, qH, qN, closed, kids, S, sent, cancelled, nextSn, viol>>

TaskStep ==
    \/ WaitStep(now)
    \/ AsyncDoneStep(now)
    \/ \E src \in {"T", "U", "H", "N", "X"} :
          /\ ~(ClosedStuck /\ src = "X")
          /\ RecvStep(src, now)

\* earliest future instant at which something becomes enabled by itself
NextDeadline ==
    LET a == IF S.task = "run" /\ S.cs = "running" /\ S.kid.exitAt > now THEN S.kid.exitAt ELSE Inf
        b == IF S.task = "run" /\ S.timer.on /\ S.timer.until > now THEN S.timer.until ELSE Inf
    IN  IF S.task = "run" /\ Awaiting THEN (IF S.afn.until > now THEN S.afn.until ELSE Inf)
        ELSE IF a < b THEN a ELSE b

Quiescent == ~TaskEnabled(now) /\ (Biased \/ parked \/ S.task # "run")

=============================================================================
