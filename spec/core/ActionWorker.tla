---------------------------- MODULE ActionWorker ----------------------------
(***************************************************************************)
(* The action worker of the watchexec library (crates/lib/src/action/      *)
(* worker.rs: worker() and throttle_collect()), the bounded priority event *)
(* queue in front of it, the filter, the debounce window, the action       *)
(* handler, the runtime-error channel with the error hook                  *)
(* (crates/lib/src/watchexec.rs: error_hook()), and the end of the main    *)
(* task.  One action per critical section; every step computes `out`, the  *)
(* observations the real code produces for it (filter calls, handler       *)
(* invocations with their batches, error-handler calls, trace points).     *)
(*                                                                         *)
(* The event queue is a heap: highest priority first, NO order among       *)
(* equals - a bag, here a set of ids.                                      *)
(***************************************************************************)
EXTENDS Integers, Sequences, FiniteSets, TLC

CONSTANTS Inf, Tracing

VARIABLES
    now,
    evs,        \* id -> [prio 0..3 (3 = urgent), verdict, empty, hold, act, arg, onerr, errhold]
    cap,        \* capacity of the event queue
    ecap,       \* capacity of the error channel
    queue,      \* ids in the event queue
    pending,    \* ids whose send_event() has been called and has not completed
    errq,       \* runtime errors waiting for the error hook (ids of the events that caused them)
    W,          \* the worker (record, see InitW)
    main,       \* the main task: "run" | "failing" (a critical error was raised, it is about to
                \* return; the other tasks run on until it drops them) | "ok" | "err"
    hist        \* history for the properties (record, see InitHist)

wvars == <<now, evs, cap, ecap, queue, pending, errq, W, main, hist>>

Ev(e, id, n, a, b, x) == [e |-> e, id |-> id, n |-> n, a |-> a, b |-> b, x |-> x, ids |-> <<>>]
EvB(e, ids) == [e |-> e, id |-> 0, n |-> 0, a |-> "", b |-> "", x |-> 0, ids |-> ids]

InitW(th) == [
    pc       |-> "collect",   \* collect | handler | errsend | ended
    set      |-> <<>>,        \* events of the current cycle
    last     |-> 0,           \* start of the throttle window
    deadline |-> Inf,         \* when the armed timeout(maxtime, recv()) expires
    throttle |-> th,          \* config.throttle
    hEnd     |-> 0,           \* when the (async) handler returns
    quit     |-> "none",      \* what the running handler asked for
    blockedOn |-> 0,          \* the error being sent while the error channel is full
    hookEnd  |-> 0,           \* the error hook (another task; kept here) is busy with a slow handler until then
    errGen   |-> 0,           \* how often the error handler has replaced itself: which one is installed
    hookCur  |-> 0,           \* the error the hook has received and not yet handed to the handler (0: none)
    minThr   |-> th,          \* history: smallest / largest throttle read in the current cycle
    maxThr   |-> th,
    batches  |-> <<>>,        \* history: [ids, at, first, urgent, thr]
    out      |-> <<>> ]

InitHist == [
    recvAt    |-> <<>>,       \* id -> time it was taken from the queue
    accepted  |-> {},         \* ids pushed to some set
    refused   |-> {},         \* ids rejected or errored by the filter
    errSeen   |-> <<>>,       \* id -> times handed to the error handler
    quitAt    |-> -1 ]

Emit(w, e) == IF Tracing THEN [w EXCEPT !.out = Append(@, e)] ELSE w

SeqToSet(s) == {s[i] : i \in DOMAIN s}
Max(S) == CHOOSE x \in S : \A y \in S : y <= x
Min2(a, b) == IF a < b THEN a ELSE b

IsUrgent(e) == evs[e].prio = 3
Bypass(e)   == IsUrgent(e) \/ evs[e].empty

MaxPrio == Max({evs[e].prio : e \in queue})

---------------------------------------------------------------------------
\* The handler, as the harness installs it: it records the batch, applies the actions its events
\* carry in order (throttle change, quit), sleeps for the largest `hold`, returns.

RECURSIVE Acts(_, _, _)
Acts(w, ids, i) ==
    IF i > Len(ids) THEN w
    ELSE LET e == evs[ids[i]] IN
         IF e.act \in {"throttle", "reconfig"}     \* reconfig: also replaces path set, watcher kind, error handler
         THEN Acts(Emit([w EXCEPT !.throttle = e.arg], Ev("throttle", 0, 0, "", "", e.arg)), ids, i + 1)
         ELSE IF e.act \in {"quit", "gquit"}
         THEN Acts(Emit([w EXCEPT !.quit = e.act],
                        Ev("ask_quit", 0, 0, "", "", IF e.act = "gquit" THEN 1 ELSE 0)), ids, i + 1)
         ELSE Acts(w, ids, i + 1)

AfterHandler(w, t) ==
    LET w1 == Emit(w, Ev("handler_out", 0, 0, "", "", 0)) IN
    IF w1.quit # "none"
    THEN Emit(Emit([w1 EXCEPT !.pc = "ended"],
                   Ev("quit", 0, 0, "", "", IF w1.quit = "gquit" THEN 1 ELSE 0)),
              Ev("worker_end", 0, 0, "", "", 0))
    ELSE [w1 EXCEPT !.pc = "collect", !.deadline = Inf]

Enter(w, t) ==
    LET ids  == w.set
        hold == Max({evs[ids[i]].hold : i \in DOMAIN ids})
        b    == [ids |-> ids, at |-> t, first |-> w.last, thr |-> w.minThr,
                 urgent |-> \E i \in DOMAIN ids : evs[ids[i]].prio = 3]
        w1   == Acts(Emit(Emit([w EXCEPT !.set = <<>>, !.deadline = Inf, !.batches = Append(@, b)],
                               Ev("handler_call", 0, 0, "", "", Len(ids))),
                          EvB("handler_in", ids)), ids, 1)
    IN  IF hold = 0 THEN AfterHandler(w1, t)
        ELSE [w1 EXCEPT !.pc = "handler", !.hEnd = t + hold]

\* the head of throttle_collect's loop: how long to wait for the next event
\* choice: "auto" = as the code computes it; "wait" / "enter" = untimed conformance
Continue(w, t, choice) ==
    IF w.set = <<>> THEN [w EXCEPT !.deadline = Inf]
    ELSE LET rem == w.throttle - (t - w.last)
             wm  == [w EXCEPT !.minThr = Min2(@, w.throttle), !.maxThr = IF w.throttle > @ THEN w.throttle ELSE @]
         IN  IF choice = "enter" \/ (choice = "auto" /\ rem <= 0) THEN Enter(wm, t)
             ELSE [wm EXCEPT !.deadline = IF rem <= 0 THEN t ELSE t + rem]

---------------------------------------------------------------------------
\* Producers: send_event() / the event sources

SendStart(e) ==
    /\ e \in DOMAIN evs /\ e \notin pending /\ e \notin queue /\ e \notin DOMAIN hist.recvAt
    /\ pending' = pending \cup {e}
    /\ UNCHANGED <<evs, cap, ecap, queue, errq, W, main, hist>>

Alive == main \in {"run", "failing"}
QueueOpen == Alive /\ W.pc # "ended"       \* the worker holds the receiving end

SendComplete(e) ==
    /\ e \in pending
    /\ QueueOpen
    /\ Cardinality(queue) < cap
    /\ pending' = pending \ {e}
    /\ queue' = queue \cup {e}
    /\ UNCHANGED <<evs, cap, ecap, errq, W, main, hist>>

\* the queue was closed under the producer (the main task has ended)
\* once a critical error has reached the main task it tears the worker down: from then on a
\* blocked send may find the queue gone even before the main task is seen to have ended
SendFail(e) ==
    /\ e \in pending
    /\ (~QueueOpen \/ main = "failing")
    /\ pending' = pending \ {e}
    /\ UNCHANGED <<evs, cap, ecap, queue, errq, W, main, hist>>

---------------------------------------------------------------------------
\* The worker

Accept(w, e, t, choice) ==
    LET first == w.set = <<>>
        w1 == [w EXCEPT !.last = IF first THEN t ELSE @, !.set = Append(@, e),
                        !.minThr = IF first THEN w.throttle ELSE Min2(@, w.throttle),
                        !.maxThr = IF first \/ w.throttle > @ THEN w.throttle ELSE @]
    IN  IF IsUrgent(e) THEN Enter(w1, t)
        ELSE IF choice = "enter" \/ (choice = "auto" /\ t - w1.last >= w1.throttle) THEN Enter(w1, t)
        ELSE Continue(w1, t, IF choice = "auto" THEN "auto" ELSE "wait")

\* recv() returned event e (a highest-priority one)
RecvStep(e, t, choice) ==
    /\ Alive /\ W.pc = "collect"
    /\ e \in queue /\ evs[e].prio = MaxPrio
    /\ queue' = queue \ {e}
    /\ LET w0 == Emit([W EXCEPT !.out = <<>>], Ev("recv", e, 0, "", "", evs[e].prio))
           v  == evs[e].verdict
       IN  IF Bypass(e)
           THEN /\ W' = Accept(w0, e, t, choice)
                /\ errq' = errq
           ELSE LET w1 == Emit(w0, Ev("filter", e, 0, v, "", 0)) IN
                CASE v = "pass"   -> /\ W' = Accept(w1, e, t, choice) /\ errq' = errq
                  [] v = "reject" -> /\ W' = Continue(w1, t, choice) /\ errq' = errq
                  [] v = "error"  ->
                        IF main # "run"      \* the error hook is gone: send() fails, worker() returns
                        THEN /\ errq' = errq /\ W' = [w1 EXCEPT !.pc = "ended"]
                        ELSE IF Len(errq) < ecap
                        THEN /\ errq' = Append(errq, e)
                             /\ W' = Continue(Emit(w1, Ev("err_sent", 0, 0, "", "", 0)), t, choice)
                        ELSE /\ errq' = errq /\ W' = [w1 EXCEPT !.pc = "errsend", !.blockedOn = e]
    /\ hist' = [hist EXCEPT
                  !.recvAt = (e :> t) @@ @,
                  !.accepted = IF Bypass(e) \/ evs[e].verdict = "pass" THEN @ \cup {e} ELSE @,
                  !.refused  = IF ~Bypass(e) /\ evs[e].verdict # "pass" THEN @ \cup {e} ELSE @]
    /\ now' = t
    /\ UNCHANGED <<evs, cap, ecap, pending, main>>

\* errors.send(err).await completes once the error hook has made room
ErrSendComplete(t, choice) ==
    /\ Alive /\ W.pc = "errsend" /\ Len(errq) < ecap
    /\ errq' = Append(errq, W.blockedOn)
    /\ W' = Continue(Emit([W EXCEPT !.pc = "collect", !.blockedOn = 0, !.out = <<>>],
                           Ev("err_sent", 0, 0, "", "", 0)), t, choice)
    /\ now' = t
    /\ UNCHANGED <<evs, cap, ecap, queue, pending, main, hist>>

\* the armed timeout expired: maxtime is recomputed with the throttle as it is now
TimeoutStep(t, choice) ==
    /\ Alive /\ W.pc = "collect" /\ W.set # <<>>
    /\ choice # "auto" \/ t >= W.deadline
    /\ W' = Continue(Emit([W EXCEPT !.out = <<>>], Ev("timeout", 0, 0, "", "", 0)), t, choice)
    /\ now' = t
    /\ UNCHANGED <<evs, cap, ecap, queue, pending, errq, main, hist>>

HandlerReturn(t) ==
    /\ Alive /\ W.pc = "handler" /\ t >= W.hEnd
    /\ W' = AfterHandler([W EXCEPT !.out = <<>>], t)
    /\ now' = t
    /\ UNCHANGED <<evs, cap, ecap, queue, pending, errq, main, hist>>

\* main: "action worker exited, ending watchexec"
MainEndsOk ==
    /\ main = "run" /\ W.pc = "ended"
    /\ main' = "ok"
    /\ UNCHANGED <<now, evs, cap, ecap, queue, pending, errq, W, hist>>

---------------------------------------------------------------------------
\* The error hook: errors.recv() -> handler -> handle_crit

\* The error hook is a task of its own: it receives the next error (which frees a place in the error
\* channel), then calls the installed handler with it.  A handler that takes a while keeps the hook from
\* receiving the next error until it is done; the worker and everything else go on (and the worker may
\* then block on the full error channel).  Its observations are not part of W.out: they may fall
\* anywhere between those of a worker step.
HookObs(e) == Ev("error", e, W.errGen, IF evs[e].onerr = "replace" THEN "ignore" ELSE evs[e].onerr, "", 0)

ErrHookTake(t) ==
    /\ main = "run" /\ errq # <<>> /\ W.hookCur = 0 /\ t >= W.hookEnd
    /\ errq' = Tail(errq)
    /\ W' = [W EXCEPT !.hookCur = Head(errq)]
    /\ now' = t
    /\ UNCHANGED <<evs, cap, ecap, queue, pending, main, hist>>

\* the installed handler is called (a handler that replaces itself does so from inside the call: this
\* error is still its own, the next one goes to the new handler)
ErrHookCall(t) ==
    /\ main = "run" /\ W.hookCur # 0
    /\ LET e == W.hookCur IN
       /\ W' = [W EXCEPT !.hookCur = 0, !.hookEnd = t + evs[e].errhold,
                         !.errGen = IF evs[e].onerr = "replace" THEN @ + 1 ELSE @]
       /\ main' = IF evs[e].onerr \in {"elevate", "critical"} THEN "failing" ELSE "run"
       /\ hist' = [hist EXCEPT !.errSeen = (e :> (IF e \in DOMAIN @ THEN @[e] ELSE 0) + 1) @@ @]
    /\ now' = t
    /\ UNCHANGED <<evs, cap, ecap, queue, pending, errq>>

\* the main task returns the critical error; its JoinSet is dropped and every worker with it
MainFails ==
    /\ main = "failing"
    /\ main' = "err"
    /\ UNCHANGED <<now, evs, cap, ecap, queue, pending, errq, W, hist>>

---------------------------------------------------------------------------
WorkerEnabled(t) ==
    /\ Alive
    /\ \/ W.pc = "collect" /\ queue # {}
       \/ W.pc = "collect" /\ W.set # <<>> /\ t >= W.deadline
       \/ W.pc = "handler" /\ t >= W.hEnd
       \/ W.pc = "errsend" /\ Len(errq) < ecap
       \/ W.pc = "ended"

HookEnabled(t) == main = "run" /\ (W.hookCur # 0 \/ (errq # <<>> /\ t >= W.hookEnd))
SendEnabled == pending # {} /\ (~QueueOpen \/ Cardinality(queue) < cap)

AnyEnabled(t) == WorkerEnabled(t) \/ HookEnabled(t) \/ SendEnabled \/ main = "failing"

NextDeadline ==
    LET ds == (IF Alive /\ W.pc = "collect" /\ W.set # <<>> /\ W.deadline > now THEN {W.deadline} ELSE {})
              \cup (IF Alive /\ W.pc = "handler" /\ W.hEnd > now THEN {W.hEnd} ELSE {})
              \cup (IF main = "run" /\ W.hookCur = 0 /\ errq # <<>> /\ W.hookEnd > now THEN {W.hookEnd} ELSE {})
    IN  IF ds = {} THEN Inf ELSE CHOOSE d \in ds : \A x \in ds : d <= x

=============================================================================
