------------------------------ MODULE JobDefs ------------------------------
(* Constant-level definitions shared by JobTask (the behavioural spec), JobTrace *)
(* (conformance) and JobMon (per-property monitors over recorded traces).       *)
EXTENDS Integers, Sequences

\* An observation.
Ev(e, id, n, a, b, x) == [e |-> e, id |-> id, n |-> n, a |-> a, b |-> b, x |-> x]

\* Linux signal numbers of the first-class signals (watchexec-signals, Signal::to_nix)
SigNum(name) ==
    CASE name = "HUP" -> 1 [] name = "INT" -> 2 [] name = "QUIT" -> 3 [] name = "KILL" -> 9
      [] name = "USR1" -> 10 [] name = "USR2" -> 12 [] name = "TERM" -> 15
      \* custom signals by number; one the platform does not know is delivered as SIGTERM
      [] name = "23" -> 23 [] name = "29" -> 29 [] name = "99999" -> 15 [] name = "0" -> 15 [] OTHER -> 0

\* What each public method of Job enqueues.

Msg(ctl, id, sig, grace, tag) ==
    [ctl |-> ctl, id |-> id, sig |-> sig, grace |-> grace, tag |-> tag, sn |-> 0]

Expand(op, id, sig, grace, tag) ==
    CASE op = "start"   -> [q |-> "N", ms |-> <<Msg("Start", id, 0, 0, 0)>>]
      [] op = "stop"    -> [q |-> "N", ms |-> <<Msg("Stop", id, 0, 0, 0)>>]
      [] op = "stop_with_signal" ->
            [q |-> "N", ms |-> <<Msg("GracefulStop", id, sig, grace, 0)>>]
      [] op = "restart" ->
            [q |-> "N", ms |-> <<Msg("Stop", 0, 0, 0, 0), Msg("Start", id, 0, 0, 0)>>]
      [] op = "restart_with_signal" ->
            [q |-> "N", ms |-> <<Msg("GracefulStop", 0, sig, grace, 0), Msg("Start", id, 0, 0, 0)>>]
      [] op = "try_restart" -> [q |-> "N", ms |-> <<Msg("TryRestart", id, 0, 0, 0)>>]
      [] op = "try_restart_with_signal" ->
            [q |-> "N", ms |-> <<Msg("TryGracefulRestart", id, sig, grace, 0)>>]
      [] op = "signal"  -> [q |-> "N", ms |-> <<Msg("Signal", id, sig, 0, 0)>>]
      [] op = "delete"  ->
            [q |-> "N", ms |-> <<Msg("Stop", 0, 0, 0, 0), Msg("Delete", id, 0, 0, 0)>>]
      [] op = "delete_now" ->
            [q |-> "U", ms |-> <<Msg("Stop", 0, 0, 0, 0), Msg("Delete", id, 0, 0, 0)>>]
      [] op = "to_wait" -> [q |-> "H", ms |-> <<Msg("NextEnding", id, 0, 0, 0)>>]
      [] op = "run"     -> [q |-> "N", ms |-> <<Msg("SyncFunc", id, 0, 0, 0)>>]
      \* run_async(): `grace` carries how long the returned future takes
      [] op = "run_async" -> [q |-> "N", ms |-> <<Msg("AsyncFunc", id, 0, grace, 0)>>]
      [] op = "set_hook" -> [q |-> "N", ms |-> <<Msg("SetSyncSpawnHook", id, 0, 0, tag)>>]
      [] op = "set_async_hook" -> [q |-> "N", ms |-> <<Msg("SetAsyncSpawnHook", id, 0, 0, tag)>>]
      [] op = "unset_hook" -> [q |-> "N", ms |-> <<Msg("UnsetSpawnHook", id, 0, 0, 0)>>]
      [] op = "set_async_error_handler" ->
            [q |-> "N", ms |-> <<Msg("SetAsyncErrorHandler", id, 0, 0, tag)>>]
      [] op = "set_error_handler" ->
            [q |-> "N", ms |-> <<Msg("SetSyncErrorHandler", id, 0, 0, tag)>>]
      [] op = "unset_error_handler" ->
            [q |-> "N", ms |-> <<Msg("UnsetErrorHandler", id, 0, 0, 0)>>]
      \* Job::control(c): one control of the public enum sent as it is, at normal priority.  The three
      \* that no method sends alone: the continuation of a graceful try-restart (tag 1 marks it as sent
      \* from outside, not by the grace timer), Delete without the Stop before it, NextEnding at normal
      \* priority
      [] op = "raw_continue" ->
            [q |-> "N", ms |-> <<Msg("ContinueTryGracefulRestart", id, 0, 0, 1)>>]
      [] op = "raw_delete" -> [q |-> "N", ms |-> <<Msg("Delete", id, 0, 0, 0)>>]
      [] op = "raw_next_ending" -> [q |-> "N", ms |-> <<Msg("NextEnding", id, 0, 0, 0)>>]


=============================================================================
