------------------------------ MODULE FsWorker ------------------------------
(***************************************************************************)
(* The filesystem-watcher worker of the watchexec library                  *)
(* (crates/lib/src/sources/fs.rs: worker()) and the change signal of the   *)
(* configuration it follows (crates/lib/src/config.rs: ConfigWatched).     *)
(*                                                                         *)
(* One action per step of the worker's loop: wait for a change, read the   *)
(* path set, read the watcher kind (re)creating the watcher, read the path *)
(* set again and diff it against what is registered, then one unwatch /    *)
(* watch call at a time.  The environment may replace the path set or the  *)
(* watcher kind, or signal an unrelated change, between any two steps -    *)
(* from another thread, or from inside a handler.                          *)
(*                                                                         *)
(* notify_waiters() wakes only a Notified that is registered at that       *)
(* moment; the worker registers one when it starts waiting and drops it    *)
(* when it resumes.                                                        *)
(***************************************************************************)
EXTENDS Integers, Sequences, FiniteSets, TLC

CONSTANTS Paths,        \* watched paths (a path with its recursion mode is one element)
          Kinds,        \* watcher kinds
          Fixes,        \* repairs of the pinned tree the modelled code contains
          Tracing

AllFsFixes == {"change_counter", "clear_on_recreate"}

VARIABLES
    cfgPaths, cfgKind,  \* the Changeables
    ver,                \* number of signal_change() calls so far
    failWatch, failUnwatch,  \* paths on which the watcher's call fails
    F,                  \* the worker (record)
    errs                \* runtime errors sent so far (sequence of [op, path])

fvars == <<cfgPaths, cfgKind, ver, failWatch, failUnwatch, F, errs>>

Ev(e, a, b, x, n) == [e |-> e, a |-> a, b |-> b, x |-> x, n |-> n]
Emit(w, e) == IF Tracing THEN [w EXCEPT !.out = Append(@, e)] ELSE w

NoWatcher == [on |-> FALSE, kind |-> "", reg |-> {}]

InitF == [
    pc       |-> "next",
    first    |-> TRUE,        \* ConfigWatched.first_run (the first wait returns at once)
    enabled  |-> FALSE,       \* a Notified is registered with the Notify
    woken    |-> FALSE,       \* ... and has been notified
    seen     |-> 0,           \* change counter value the worker has acted upon
    wtype    |-> "native",    \* watcher_type (Watcher::default())
    watcher  |-> NoWatcher,
    pathset  |-> {},          \* what the worker believes is registered
    toDrop   |-> <<>>,
    toWatch  |-> <<>>,
    created  |-> 0,           \* history: watchers created
    out      |-> <<>> ]

SetToSeq(S) == CHOOSE s \in [1..Cardinality(S) -> S] : \A i, j \in 1..Cardinality(S) : i # j => s[i] # s[j]

---------------------------------------------------------------------------
\* The environment: Config::pathset() / file_watcher() / any other setter, each followed by
\* signal_change() = notify_waiters()

Signal ==
    /\ ver' = ver + 1
    /\ F' = IF F.enabled THEN [F EXCEPT !.woken = TRUE] ELSE F

SetPaths(S) == /\ cfgPaths' = S /\ Signal /\ UNCHANGED <<cfgKind, failWatch, failUnwatch, errs>>
SetKind(k)  == /\ cfgKind' = k /\ Signal /\ UNCHANGED <<cfgPaths, failWatch, failUnwatch, errs>>
OtherChange == /\ Signal /\ UNCHANGED <<cfgPaths, cfgKind, failWatch, failUnwatch, errs>>

\* The watcher's own callback (process_event): k filesystem events then e errors arrive in one go.
\* Events go to the bounded event queue with try_send: those beyond its free capacity are dropped,
\* one runtime error each; an error from the watcher is passed on, one runtime error each.
RECURSIVE Rep(_, _)
Rep(x, n) == IF n <= 0 THEN <<>> ELSE <<x>> \o Rep(x, n - 1)
CallbackBurst(k, e, free) ==
    /\ errs' = errs \o Rep([op |-> "overflow", path |-> ""], k - free) \o Rep([op |-> "callback", path |-> ""], e)
    /\ UNCHANGED <<cfgPaths, cfgKind, ver, failWatch, failUnwatch, F>>

---------------------------------------------------------------------------
\* The worker

\* config_watch.next(): register a Notified, then (unless it is the first run) await it
StepNext ==
    /\ F.pc = "next"
    /\ F' = Emit([F EXCEPT !.enabled = TRUE, !.woken = FALSE, !.pc = "await", !.out = <<>>],
                 Ev("cfg_wait", "", "", IF F.first THEN 1 ELSE 0, 0))
    /\ UNCHANGED <<cfgPaths, cfgKind, ver, failWatch, failUnwatch, errs>>

\* with the change counter the wait also ends when a change was signalled since the worker last
\* looked; the pinned tree only ends it on a notification received while registered
CanResume == F.first \/ F.woken \/ ("change_counter" \in Fixes /\ ver # F.seen)

StepResume ==
    /\ F.pc = "await" /\ CanResume
    /\ F' = Emit([F EXCEPT !.enabled = FALSE, !.woken = FALSE, !.first = FALSE, !.pc = "read_empty",
                           !.seen = ver, !.out = <<>>],
                 Ev("fs_wake", "", "", 0, 0))
    /\ UNCHANGED <<cfgPaths, cfgKind, ver, failWatch, failUnwatch, errs>>

StepReadEmpty ==
    /\ F.pc = "read_empty"
    /\ F' = IF cfgPaths = {}
            THEN LET w1 == Emit([F EXCEPT !.watcher = NoWatcher, !.pathset = {}, !.pc = "next", !.out = <<>>],
                                Ev("fs_release", "", "", IF F.watcher.on THEN 1 ELSE 0, 0))
                 IN  IF F.watcher.on THEN Emit(w1, Ev("drop_watcher", "", "", F.created, 0)) ELSE w1
            ELSE Emit([F EXCEPT !.pc = "read_kind", !.out = <<>>], Ev("fs_nonempty", "", "", 0, 0))
    /\ UNCHANGED <<cfgPaths, cfgKind, ver, failWatch, failUnwatch, errs>>

StepReadKind ==
    /\ F.pc = "read_kind"
    /\ F' = IF ~F.watcher.on \/ F.wtype # cfgKind
            THEN LET w1 == Emit([F EXCEPT !.wtype = cfgKind,
                                         !.watcher = [on |-> TRUE, kind |-> cfgKind, reg |-> {}],
                                         !.pathset = IF "clear_on_recreate" \in Fixes THEN {} ELSE @,
                                         !.created = @ + 1,
                                         !.pc = "read_paths", !.out = <<>>],
                                Ev("create", cfgKind, "", F.created + 1, 0))
                     w2 == IF F.watcher.on THEN Emit(w1, Ev("drop_watcher", "", "", F.created, 0)) ELSE w1
                 IN  Emit(w2, Ev("fs_kind", "", "", 0, 0))
            ELSE Emit([F EXCEPT !.pc = "read_paths", !.out = <<>>], Ev("fs_kind", "", "", 0, 0))
    /\ UNCHANGED <<cfgPaths, cfgKind, ver, failWatch, failUnwatch, errs>>

StepReadPaths ==
    /\ F.pc = "read_paths"
    /\ LET cp == cfgPaths
           drop  == IF F.pathset = {} THEN {} ELSE F.pathset \ cp
           watch == IF F.pathset = {} THEN cp ELSE cp \ F.pathset
       IN  F' = Emit([F EXCEPT !.toDrop = SetToSeq(drop), !.toWatch = SetToSeq(watch),
                               !.pc = IF drop = {} /\ watch = {} THEN "next" ELSE "apply", !.out = <<>>],
                     Ev("fs_plan", "", "", Cardinality(watch), Cardinality(drop)))
    /\ UNCHANGED <<cfgPaths, cfgKind, ver, failWatch, failUnwatch, errs>>

\* one unwatch() or watch() call; the order inside each list is the iteration order of a hash
\* set / of the configured vector, which the spec leaves open: any element may be next
StepApply ==
    /\ F.pc = "apply"
    /\ IF F.toDrop # <<>>
       THEN \E i \in DOMAIN F.toDrop :
              LET p == F.toDrop[i]
                  rest == [j \in 1..(Len(F.toDrop) - 1) |-> IF j < i THEN F.toDrop[j] ELSE F.toDrop[j + 1]]
              IN  IF p \in failUnwatch
                  THEN /\ F' = Emit([F EXCEPT !.toDrop = rest, !.out = <<>>,
                                              !.pc = IF rest = <<>> /\ F.toWatch = <<>> THEN "next" ELSE "apply"],
                                    Ev("unwatch", p, "fail", 0, 0))
                       /\ errs' = Append(errs, [op |-> "unwatch", path |-> p])
                  ELSE /\ F' = Emit([F EXCEPT !.toDrop = rest, !.pathset = @ \ {p},
                                              !.watcher.reg = @ \ {p}, !.out = <<>>,
                                              !.pc = IF rest = <<>> /\ F.toWatch = <<>> THEN "next" ELSE "apply"],
                                    Ev("unwatch", p, "ok", 0, 0))
                       /\ errs' = errs
       ELSE IF F.toWatch # <<>>
       THEN \E i \in DOMAIN F.toWatch :
              LET p == F.toWatch[i]
                  rest == [j \in 1..(Len(F.toWatch) - 1) |-> IF j < i THEN F.toWatch[j] ELSE F.toWatch[j + 1]]
              IN  IF p \in failWatch
                  THEN /\ F' = Emit([F EXCEPT !.toWatch = rest, !.out = <<>>,
                                              !.pc = IF rest = <<>> THEN "next" ELSE "apply"],
                                    Ev("watch", p, "fail", 0, 0))
                       /\ errs' = Append(errs, [op |-> "watch", path |-> p])
                  ELSE /\ F' = Emit([F EXCEPT !.toWatch = rest, !.pathset = @ \cup {p},
                                              !.watcher.reg = @ \cup {p}, !.out = <<>>,
                                              !.pc = IF rest = <<>> THEN "next" ELSE "apply"],
                                    Ev("watch", p, "ok", 0, 0))
                       /\ errs' = errs
       ELSE FALSE
    /\ UNCHANGED <<cfgPaths, cfgKind, ver, failWatch, failUnwatch>>

WorkerStep == StepNext \/ StepResume \/ StepReadEmpty \/ StepReadKind \/ StepReadPaths \/ StepApply

WorkerIdle == F.pc = "await" /\ ~CanResume

\* What "converged" means once changes have stopped and the worker waits again.
Converged ==
    /\ cfgPaths = {} => ~F.watcher.on
    /\ cfgPaths # {} =>
          /\ F.watcher.on /\ F.watcher.kind = cfgKind
          /\ cfgPaths \ failWatch \subseteq F.watcher.reg          \* every configured path is registered
          /\ F.watcher.reg \subseteq cfgPaths \cup failUnwatch     \* and nothing else is
=============================================================================
