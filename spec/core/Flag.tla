-------------------------------- MODULE Flag --------------------------------
(***************************************************************************)
(* The flag behind every ticket (crates/supervisor/src/flag.rs): a boolean *)
(* that is raised once, and any number of tasks waiting for it, each of    *)
(* which must be woken.  C07 ("every ticket resolves", several waiters on  *)
(* one ticket, several tickets sharing the job-gone flag) rests on it.     *)
(*                                                                         *)
(* One action per atomic step of the code:                                 *)
(*   poll:  load (fast path) - lock - load again - register waker - unlock *)
(*   raise: store - lock - take the wakers - unlock - wake each            *)
(* The loads and the store are Relaxed: a load that is not ordered after   *)
(* the store by the mutex may still return the old value; a load made      *)
(* while holding the mutex after the raiser released it must see the       *)
(* store.  A waiting task polls again whenever its waker is called (and    *)
(* may be polled spuriously).                                              *)
(*                                                                         *)
(* Recheck = FALSE (no second load under the lock) and Slots = 1 (a single *)
(* waker slot, the pinned tree's AtomicWaker) are kept as switches: TLC    *)
(* finds the lost wake-up with either (Flag_norecheck.cfg, Flag_oneslot).  *)
(***************************************************************************)
EXTENDS Integers, FiniteSets, TLC

CONSTANTS Tasks,        \* waiting tasks (each owns one waker)
          Raisers,      \* threads calling raise() (the flag is idempotent)
          Recheck,      \* the code checks the flag again while holding the lock
          Slots,        \* how many wakers can be registered (0 = unbounded)
          Spurious      \* a pending task may be polled again without having been woken

VARIABLES
    set,        \* the atomic boolean
    lock,       \* holder of the mutex, or Free
    released,   \* some raiser has released the mutex after its store (release/acquire edge)
    wakers,     \* registered wakers (tasks); a sequence matters only for Slots = 1: last wins
    tpc, tseen, \* per task: program counter; whether it acquired the mutex after `released`
    woken,      \* per task: its waker has been called since it last started a poll
    rpc, rtaken \* per raiser: program counter; the wakers it took

vars == <<set, lock, released, wakers, tpc, tseen, woken, rpc, rtaken>>

Free == 0       \* tasks and raisers are numbered from 1

Init ==
    /\ set = FALSE /\ lock = Free /\ released = FALSE /\ wakers = {}
    /\ tpc = [t \in Tasks |-> "start"] /\ tseen = [t \in Tasks |-> FALSE]
    /\ woken = [t \in Tasks |-> FALSE]
    /\ rpc = [r \in Raisers |-> "store"] /\ rtaken = [r \in Raisers |-> {}]

---------------------------------------------------------------------------
\* A task: (re)start a poll when first run, when woken, or spuriously
PollStart(t) ==
    /\ \/ tpc[t] = "start"
       \/ tpc[t] = "pending" /\ (woken[t] \/ Spurious)
    /\ tpc' = [tpc EXCEPT ![t] = "fast"]
    /\ woken' = [woken EXCEPT ![t] = FALSE]
    /\ UNCHANGED <<set, lock, released, wakers, tseen, rpc, rtaken>>

\* value a Relaxed load may return for task t
MayRead(t, v) == IF v THEN set ELSE (~set \/ ~tseen[t])

\* fast path: if already done, return Ready without touching the mutex
Fast(t, v) ==
    /\ tpc[t] = "fast" /\ MayRead(t, v)
    /\ tpc' = [tpc EXCEPT ![t] = IF v THEN "ready" ELSE "lock"]
    /\ UNCHANGED <<set, lock, released, wakers, tseen, woken, rpc, rtaken>>

Lock(t) ==
    /\ tpc[t] = "lock" /\ lock = Free
    /\ lock' = t
    /\ tseen' = [tseen EXCEPT ![t] = @ \/ released]
    /\ tpc' = [tpc EXCEPT ![t] = IF Recheck THEN "check" ELSE "register"]
    /\ UNCHANGED <<set, released, wakers, woken, rpc, rtaken>>

\* the second load, made while holding the mutex
Check(t, v) ==
    /\ tpc[t] = "check" /\ MayRead(t, v)
    /\ IF v THEN /\ tpc' = [tpc EXCEPT ![t] = "ready"] /\ lock' = Free
            ELSE /\ tpc' = [tpc EXCEPT ![t] = "register"] /\ lock' = lock
    /\ UNCHANGED <<set, released, wakers, tseen, woken, rpc, rtaken>>

\* register this task's waker (once), release the mutex, return Pending
Register(t) ==
    /\ tpc[t] = "register"
    /\ wakers' = IF Slots = 1 THEN {t} ELSE wakers \cup {t}
    /\ lock' = Free
    /\ tpc' = [tpc EXCEPT ![t] = "pending"]
    /\ UNCHANGED <<set, released, tseen, woken, rpc, rtaken>>

---------------------------------------------------------------------------
Store(r) ==
    /\ rpc[r] = "store"
    /\ set' = TRUE
    /\ rpc' = [rpc EXCEPT ![r] = "lock"]
    /\ UNCHANGED <<lock, released, wakers, tpc, tseen, woken, rtaken>>

\* lock, take the wakers, unlock: one critical section
Take(r) ==
    /\ rpc[r] = "lock" /\ lock = Free
    /\ rtaken' = [rtaken EXCEPT ![r] = wakers]
    /\ wakers' = {}
    /\ released' = TRUE
    /\ rpc' = [rpc EXCEPT ![r] = "wake"]
    /\ UNCHANGED <<set, lock, tpc, tseen, woken>>

Wake(r) ==
    /\ rpc[r] = "wake"
    /\ IF rtaken[r] = {}
       THEN /\ rpc' = [rpc EXCEPT ![r] = "done"] /\ UNCHANGED <<woken, rtaken>>
       ELSE \E t \in rtaken[r] :
              /\ woken' = [woken EXCEPT ![t] = TRUE]
              /\ rtaken' = [rtaken EXCEPT ![r] = @ \ {t}]
              /\ rpc' = rpc
    /\ UNCHANGED <<set, lock, released, wakers, tpc, tseen>>

Next ==
    \/ \E t \in Tasks : PollStart(t) \/ Lock(t) \/ Register(t) \/ \E v \in BOOLEAN : Fast(t, v) \/ Check(t, v)
    \/ \E r \in Raisers : Store(r) \/ Take(r) \/ Wake(r)

TaskStep(t)   == PollStart(t) \/ Lock(t) \/ Register(t) \/ \E v \in BOOLEAN : Fast(t, v) \/ Check(t, v)
RaiserStep(r) == Store(r) \/ Take(r) \/ Wake(r)

Spec == Init /\ [][Next]_vars
FairSpec == Spec /\ (\A t \in Tasks : WF_vars(TaskStep(t))) /\ (\A r \in Raisers : WF_vars(RaiserStep(r)))

---------------------------------------------------------------------------
AllRaised == \A r \in Raisers : rpc[r] \in {"done", "off"}      \* "off": not taking part (trace scenarios)

\* the property: once raise() has returned, no task is left waiting without having been woken
NoLostWakeup == AllRaised => \A t \in Tasks : tpc[t] = "pending" => woken[t]

\* a task is only ever told "ready" when the flag is raised
ReadyMeansRaised == \A t \in Tasks : tpc[t] = "ready" => set

\* mutual exclusion and shape
TypeOK ==
    /\ lock \in Tasks \cup {Free}
    /\ \A t \in Tasks : (tpc[t] \in {"check", "register"}) <=> lock = t
    /\ wakers \subseteq Tasks

\* with fairness: every task ends up ready once some raise() has started
EveryoneReady == (\E r \in Raisers : rpc[r] # "store") ~> (\A t \in Tasks : tpc[t] = "ready")
=============================================================================
