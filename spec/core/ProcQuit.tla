------------------------------ MODULE ProcQuit ------------------------------
(***************************************************************************)
(* The quit (C08) at the level of operating-system processes: what a       *)
(* graceful or abrupt quit does to the processes of each job's command -   *)
(* the command itself (the "leader") and, for a command that forks, the    *)
(* other member of its process group.                                      *)
(*                                                                         *)
(* Follows crates/lib/src/action/worker.rs (quit: stop_with_signal +       *)
(* delete per job, concurrently, then join; abort: drop everything),       *)
(* crates/supervisor/src/job/task.rs (GracefulStop: signal, arm the timer; *)
(* timer: kill; wait branch: reap) and what the process-wrap wrappers do   *)
(* with a signal or kill: a grouped (or session) command is signalled and  *)
(* killed as a process group, an ungrouped one as a single process, and    *)
(* dropping a running command kills the command's own process only.        *)
(*                                                                         *)
(* The model is written as a successor function over explicit state        *)
(* records (Succ), so that the model checker (MC_ProcQuit) and the trace   *)
(* specification (ProcTrace, which needs the set of possible outcomes of   *)
(* one quit) use the same transitions.                                     *)
(***************************************************************************)
EXTENDS Integers, Sequences, FiniteSets, TLC

Wraps   == {"group", "session", "none"}
Classes == {"dies", "ignores", "fork_dies", "fork_ignores", "ignores_fork_dies", "daemon"}
Pres    == {"none", "start", "stop", "gstop"}
Manners == {"graceful", "abort"}

LeaderDiesOnSignal(c) == c \in {"dies", "fork_dies", "fork_ignores"}
MemberDiesOnSignal(c) == c \in {"fork_dies", "ignores_fork_dies", "daemon"}
HasMember(c)          == c \in {"fork_dies", "fork_ignores", "ignores_fork_dies", "daemon"}
Grouped(w)            == w \in {"group", "session"}

\* a job as the quit finds it, once its command has settled
InitJob(wrap, cls, pre) ==
    LET started == pre \in {"start", "gstop"} IN
    [ wrap |-> wrap, cls |-> cls, pre |-> pre,
      L  |-> CASE pre = "none" -> "none"
               [] pre = "stop" -> "dead"
               [] OTHER -> IF cls = "daemon" THEN "dead" ELSE "alive",
      M  |-> CASE pre = "none" -> "none"
               [] pre = "stop" -> IF HasMember(cls) THEN (IF Grouped(wrap) THEN "dead" ELSE "alive") ELSE "none"
               [] OTHER -> IF HasMember(cls) THEN "alive" ELSE "none",
      st |-> CASE pre = "none" -> "pending" [] pre = "stop" -> "finished" [] OTHER -> "running",
      sigL  |-> FALSE, sigM  |-> FALSE, timer |-> FALSE,
      \* a stop_with_signal() issued just before the quit and not yet looked at by the job task
      preStop |-> pre = "gstop",
      stopReq |-> FALSE, deleted |-> FALSE, expired |-> FALSE ]

InitState(jobs, manner, grace) ==
    [ jobs |-> jobs, manner |-> manner, grace |-> grace, phase |-> "quitting" ]

---------------------------------------------------------------------------
\* signal / kill as the wrappers deliver them
Signalled(J) == [J EXCEPT !.sigL = TRUE, !.sigM = (@ \/ Grouped(J.wrap))]
Killed(J)    == [J EXCEPT !.L = IF @ = "alive" THEN "dead" ELSE @,
                          !.M = IF @ = "alive" /\ Grouped(J.wrap) THEN "dead" ELSE @]

\* steps of the processes themselves
ProcSteps(J) ==
    (IF J.L = "alive" /\ J.sigL /\ LeaderDiesOnSignal(J.cls) THEN {[J EXCEPT !.L = "dead"]} ELSE {})
    \cup (IF J.M = "alive" /\ J.sigM /\ MemberDiesOnSignal(J.cls) THEN {[J EXCEPT !.M = "dead"]} ELSE {})

\* stop_with_signal() as the job task executes it: a no-op unless the command is running
StopWithSignal(J) ==
    IF J.st = "running" /\ ~J.timer THEN [Signalled(J) EXCEPT !.timer = TRUE] ELSE J

\* steps of the job task that do not depend on the quit
TaskSteps(J, grace) ==
    \* the earlier stop_with_signal(): a no-op unless the command is running
    (IF J.preStop /\ ~J.deleted THEN {[StopWithSignal(J) EXCEPT !.preStop = FALSE]} ELSE {}) \cup
    \* wait branch: the command's own process has ended, its status is collected, the timer dropped
    (IF J.st = "running" /\ J.L = "dead" /\ ~J.deleted
        THEN {[J EXCEPT !.st = "finished", !.timer = FALSE]} ELSE {})
    \* the grace timer fires: a zero timer at once (it can even win against the collection of an
    \* already dead process); a real one only when nothing else is about to happen
    \cup (IF J.timer /\ J.st = "running" /\ ~J.deleted
             /\ (grace = 0 \/ (ProcSteps(J) = {} /\ J.L # "dead"))
        THEN {[Killed(J) EXCEPT !.timer = FALSE, !.expired = TRUE]} ELSE {})

\* the graceful quit's per-job task: stop_with_signal, then delete (a normal control: it waits
\* behind a pending graceful stop until the process has ended)
GracefulSteps(J) ==
    (IF ~J.stopReq /\ ~J.preStop THEN {[StopWithSignal(J) EXCEPT !.stopReq = TRUE]} ELSE {})
    \cup (IF J.stopReq /\ J.st # "running" /\ ~J.timer /\ ~J.deleted
        THEN {[J EXCEPT !.deleted = TRUE]} ELSE {})

\* abort: the handle and the task go away; a running command's own process is killed on drop
AbortSteps(J) ==
    IF ~J.deleted
    THEN {[J EXCEPT !.deleted = TRUE, !.timer = FALSE, !.preStop = FALSE,
                    !.L = IF J.st = "running" /\ @ = "alive" THEN "dead" ELSE @]}
    ELSE {}

JobSucc(s, J) ==
    ProcSteps(J)
    \cup (IF s.phase = "quitting" THEN TaskSteps(J, s.grace) ELSE {})
    \cup (IF s.phase = "quitting"
          THEN (IF s.manner = "graceful" THEN GracefulSteps(J) ELSE AbortSteps(J)) ELSE {})

Succ(s) ==
    (UNION { { [s EXCEPT !.jobs[j] = J2] : J2 \in JobSucc(s, s.jobs[j]) } : j \in DOMAIN s.jobs } \ {s})
    \cup (IF s.phase = "quitting" /\ \A j \in DOMAIN s.jobs : s.jobs[j].deleted
          THEN {[s EXCEPT !.phase = "ended"]} ELSE {})

\* every state in which nothing more happens, reachable from s
RECURSIVE Closure(_, _)
Closure(frontier, seen) ==
    IF frontier = {} THEN seen
    ELSE LET next == UNION {Succ(x) : x \in frontier} \ seen
         IN  Closure(next, seen \cup next)
Reach(s)  == Closure({s}, {s})
Finals(s) == {x \in Reach(s) : Succ(x) = {}}

---------------------------------------------------------------------------
\* What C08 says about a state in which nothing more happens
Alive(J) == (IF J.L = "alive" THEN 1 ELSE 0) + (IF J.M = "alive" THEN 1 ELSE 0)

MainEnds(x)      == x.phase = "ended"
NoCommandLeft(x) == \A j \in DOMAIN x.jobs : x.jobs[j].L # "alive"
\* the other members of a grouped command's process group after a graceful quit
NoMemberLeftIn(x, j) ==
    (x.manner = "graceful" /\ Grouped(x.jobs[j].wrap)) => x.jobs[j].M # "alive"
NoMemberLeft(x)  == \A j \in DOMAIN x.jobs : NoMemberLeftIn(x, j)
=============================================================================
