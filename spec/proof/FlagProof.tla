----------------------------- MODULE FlagProof -----------------------------
(* NoLostWakeup of Flag.tla for ANY number of waiting tasks and raisers (TLAPS).   *)
(* The code as it is: Recheck = TRUE, unbounded waker list (Slots # 1).            *)
EXTENDS Flag, TLAPS

ASSUME Consts == /\ Recheck = TRUE /\ Slots # 1 /\ Free \notin Tasks /\ Raisers # {}

\* ("off" - not taking part - only occurs in the trace specification's scenarios)
PCs  == {"start", "fast", "lock", "check", "register", "pending", "ready"}
RPCs == {"store", "lock", "wake", "done"}

Types ==
    /\ set \in BOOLEAN /\ released \in BOOLEAN
    /\ lock \in Tasks \cup {Free}
    /\ wakers \subseteq Tasks
    /\ tpc \in [Tasks -> PCs] /\ tseen \in [Tasks -> BOOLEAN] /\ woken \in [Tasks -> BOOLEAN]
    /\ rpc \in [Raisers -> RPCs] /\ rtaken \in [Raisers -> SUBSET Tasks]

Inv ==
    /\ Types
    /\ \A t \in Tasks : (tpc[t] \in {"check", "register"}) <=> lock = t
    /\ released => set
    /\ \A r \in Raisers : rpc[r] # "store" => set
    /\ released => wakers = {}
    /\ \A t \in Tasks : tpc[t] = "register" => ~released
    /\ \A t \in Tasks : (tpc[t] = "check" /\ released) => tseen[t]
    /\ \A r \in Raisers : rpc[r] \in {"wake", "done"} => released
    /\ \A r \in Raisers : rpc[r] \in {"store", "lock", "done"} => rtaken[r] = {}
    /\ \A t \in Tasks : (tpc[t] = "pending" /\ ~woken[t]) => (t \in wakers \/ \E r \in Raisers : t \in rtaken[r])

THEOREM InitInv == Init => Inv
  BY Consts DEF Init, Inv, Types, PCs, RPCs, Free

THEOREM NextInv == Inv /\ [Next]_vars => Inv'
<1> SUFFICES ASSUME Inv, [Next]_vars PROVE Inv'
  OBVIOUS
<1>1. CASE UNCHANGED vars
  BY <1>1 DEF Inv, Types, vars
<1>2. ASSUME NEW t \in Tasks, PollStart(t) PROVE Inv'
  BY <1>2, Consts DEF Inv, Types, PollStart, PCs, RPCs
<1>3. ASSUME NEW t \in Tasks, NEW v \in BOOLEAN, Fast(t, v) PROVE Inv'
  BY <1>3, Consts DEF Inv, Types, Fast, MayRead, PCs, RPCs
<1>4. ASSUME NEW t \in Tasks, Lock(t) PROVE Inv'
  BY <1>4, Consts DEF Inv, Types, Lock, PCs, RPCs, Free
<1>5. ASSUME NEW t \in Tasks, NEW v \in BOOLEAN, Check(t, v) PROVE Inv'
  BY <1>5, Consts DEF Inv, Types, Check, MayRead, PCs, RPCs, Free
<1>6. ASSUME NEW t \in Tasks, Register(t) PROVE Inv'
  BY <1>6, Consts DEF Inv, Types, Register, PCs, RPCs, Free
<1>7. ASSUME NEW r \in Raisers, Store(r) PROVE Inv'
  BY <1>7, Consts DEF Inv, Types, Store, PCs, RPCs
<1>8. ASSUME NEW r \in Raisers, Take(r) PROVE Inv'
  <2>1. lock = Free /\ lock' = Free
    BY <1>8 DEF Take
  <2>2. \A t \in Tasks : tpc[t] \notin {"check", "register"}
    BY <2>1, Consts DEF Inv
  <2>3. wakers' = {} /\ released' = TRUE /\ rtaken' = [rtaken EXCEPT ![r] = wakers] /\ rpc' = [rpc EXCEPT ![r] = "wake"]
        /\ set' = set /\ tpc' = tpc /\ tseen' = tseen /\ woken' = woken
    BY <1>8 DEF Take
  <2>4. rpc[r] = "lock"
    BY <1>8 DEF Take
  <2>5. set
    BY <2>4 DEF Inv
  <2>6. Types'
    BY <2>1, <2>3 DEF Inv, Types, RPCs
  <2>7. \A t \in Tasks : ((tpc[t] \in {"check", "register"}) <=> lock = t)'
    BY <2>1, <2>2, <2>3, Consts
  <2>8. (\A r2 \in Raisers : rpc[r2] \in {"wake", "done"} => released)'
    BY <2>3
  <2>9. (\A r2 \in Raisers : rpc[r2] \in {"store", "lock", "done"} => rtaken[r2] = {})'
    BY <2>3 DEF Inv, Types
  <2>10. (\A t \in Tasks : (tpc[t] = "pending" /\ ~woken[t]) => (t \in wakers \/ \E r2 \in Raisers : t \in rtaken[r2]))'
    <3> SUFFICES ASSUME NEW t \in Tasks, tpc[t] = "pending", ~woken[t]
                 PROVE \E r2 \in Raisers : t \in rtaken'[r2]
      BY <2>3
    <3>1. CASE t \in wakers
      BY <3>1, <2>3 DEF Inv, Types
    <3>2. CASE \E r2 \in Raisers : t \in rtaken[r2]
      <4> PICK r2 \in Raisers : t \in rtaken[r2]
        BY <3>2
      <4>1. r2 # r
        BY <2>4 DEF Inv
      <4> QED
        BY <4>1, <2>3 DEF Inv, Types
    <3> QED
      BY <3>1, <3>2 DEF Inv
  <2>11. (\A r2 \in Raisers : rpc[r2] # "store" => set)'
    BY <2>3, <2>5 DEF Inv, Types
  <2> QED
    BY <2>2, <2>3, <2>5, <2>6, <2>7, <2>8, <2>9, <2>10, <2>11 DEF Inv
<1>9. ASSUME NEW r \in Raisers, Wake(r) PROVE Inv'
  BY <1>9, Consts DEF Inv, Types, Wake, PCs, RPCs
<1>10. QED
  BY <1>1, <1>2, <1>3, <1>4, <1>5, <1>6, <1>7, <1>8, <1>9 DEF Next

THEOREM InvImplies == Inv => NoLostWakeup
<1> SUFFICES ASSUME Inv, AllRaised PROVE \A t \in Tasks : tpc[t] = "pending" => woken[t]
  BY DEF NoLostWakeup
<1>1. \A r \in Raisers : rpc[r] = "done"
  BY DEF AllRaised, Inv, Types, RPCs
<1>2. PICK r0 \in Raisers : rpc[r0] = "done"
  BY <1>1, Consts
<1>3. released /\ wakers = {}
  BY <1>2 DEF Inv
<1>4. \A r \in Raisers : rtaken[r] = {}
  BY <1>1 DEF Inv
<1> QED
  BY <1>3, <1>4 DEF Inv, Types

THEOREM Safety == Spec => []NoLostWakeup
  BY InitInv, NextInv, InvImplies, PTL DEF Spec
=============================================================================
