------------------------------ MODULE JobMtMon ------------------------------
(***************************************************************************)
(* C10 and C04 with several concurrent senders on a multi-threaded runtime *)
(* (jobmt_driver): a monitor over the recorded lines.                      *)
(*                                                                         *)
(* A sender logs `send_begin` before it calls the Job method and           *)
(* `send_end` after the call has returned; the control enters its queue    *)
(* somewhere in between.  The task's side (deq, raise, spawn, kill, ...)   *)
(* is logged by the task itself.  One lock orders all lines, so:           *)
(*   - a control whose send_end precedes another's send_begin was queued   *)
(*     before it;                                                          *)
(*   - a control whose send_end precedes the task's previous line was in    *)
(*     its queue when the task next looked at its queues.                  *)
(* Only what follows from these two facts is demanded:                     *)
(*   exactly once:  no control is dequeued twice, none that was not sent;  *)
(*   send order:    controls of one priority leave in the order they were  *)
(*                  queued - always for one sender, and across senders     *)
(*                  whenever the order is known;                           *)
(*   priority:      no control is dequeued while one of a higher priority  *)
(*                  was already queued when the task last finished a step; *)
(*   one process:   no spawn while a spawned child has not been reaped;    *)
(*   tickets:       every ticket resolves, the task ends normally.         *)
(***************************************************************************)
EXTENDS Integers, Sequences, FiniteSets, TLC, Json, IOUtils

Rec == ndJsonDeserialize(IOEnv.TRACE)

VARIABLES l, M

InitM == [ ctl |-> <<>>,        \* id -> [sender, seq, prio, begin, end, deq]
           lastTask |-> 0,      \* line of the task's latest observation
           live |-> {},         \* children spawned and not yet reaped
           bad |-> {} ]

Bad(m, why) == [m EXCEPT !.bad = @ \cup {why}]
Rank(p) == CASE p = "U" -> 3 [] p = "H" -> 2 [] OTHER -> 1

TaskSide == {"deq", "raise", "hook", "spawn", "spawn_failed", "signal", "kill", "wait_ret", "drop",
             "waited", "marker", "loop_exit", "err", "timer_fired"}

OnDeq(m, r, line) ==
    IF r.id = 0 THEN m          \* a control without a ticket of its own (the Stop of delete_now, the driver's set-up)
    ELSE IF r.id \notin DOMAIN m.ctl THEN Bad(m, "a control was dequeued that nobody had sent")
    ELSE
    LET c  == m.ctl[r.id]
        others == {i \in DOMAIN m.ctl : i # r.id /\ ~m.ctl[i].deq}
        m1 == IF c.deq THEN Bad(m, "a control was dequeued twice") ELSE m
        m2 == IF \E i \in others : m.ctl[i].sender = c.sender /\ m.ctl[i].prio = c.prio /\ m.ctl[i].seq < c.seq
              THEN Bad(m1, "a sender's controls of one priority were executed out of order") ELSE m1
        m3 == IF \E i \in others : m.ctl[i].prio = c.prio /\ m.ctl[i].end # 0 /\ m.ctl[i].end < c.begin
              THEN Bad(m2, "a control overtook one of the same priority that had been queued before it was sent") ELSE m2
        m4 == IF \E i \in others : Rank(m.ctl[i].prio) > Rank(c.prio) /\ m.ctl[i].end # 0 /\ m.ctl[i].end < m.lastTask
              THEN Bad(m3, "a control ran while one of a higher priority was pending") ELSE m3
    IN  [m4 EXCEPT !.ctl[r.id].deq = TRUE]

Step(m0, r, line) ==
    IF r.e = "reset" THEN InitM
    ELSE
    LET m == IF r.e \in TaskSide THEN [m0 EXCEPT !.lastTask = line] ELSE m0 IN
    CASE r.e = "send_begin" ->
            [m0 EXCEPT !.ctl = (r.id :> [sender |-> r.n, seq |-> r.x, prio |-> r.b, begin |-> line, end |-> 0, deq |-> FALSE]) @@ @]
      [] r.e = "send_end" -> IF r.id \in DOMAIN m0.ctl THEN [m0 EXCEPT !.ctl[r.id].end = line] ELSE m0
      [] r.e = "deq" -> [OnDeq(m0, r, line) EXCEPT !.lastTask = line]
      [] r.e = "spawn" ->
            LET m1 == IF m.live # {} THEN Bad(m, "a process was spawned while the previous one had not been reaped") ELSE m
            IN  [m1 EXCEPT !.live = @ \cup {r.n}]
      [] r.e \in {"wait_ret", "drop"} -> [m EXCEPT !.live = @ \ {r.n}]
      [] r.e = "unresolved" -> Bad(m, "a ticket never resolved")
      [] r.e = "task_end" -> IF r.a # "ok" THEN Bad(m, "the job task did not end normally") ELSE m
      [] OTHER -> m

MonInit == l = 1 /\ M = InitM
MonNext == l <= Len(Rec) /\ l' = l + 1 /\ M' = Step(M, Rec[l], l)
MonSpec == MonInit /\ [][MonNext]_<<l, M>>

\* attribution: each property is judged on its own complaints only
C04Bad == {"a process was spawned while the previous one had not been reaped", "the job task did not end normally"}
C07Bad == {"a ticket never resolved"}
MonMtC04 == M.bad \cap C04Bad = {}
MonMtC10 == M.bad \ (C04Bad \cup C07Bad) = {}
MonMt == M.bad = {}

MonDone ==
    LET d == TLCGet("stats").diameter IN
    IF d - 1 = Len(Rec) THEN TRUE
    ELSE /\ PrintT(<<"TRACE-REJECTED at line", d, Rec[d]>>) /\ FALSE
=============================================================================
