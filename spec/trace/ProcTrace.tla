------------------------------ MODULE ProcTrace ------------------------------
(***************************************************************************)
(* Recorded quits of a real Watchexec with real commands (proc_driver)     *)
(* against ProcQuit: the main task ends, not before a grace period that    *)
(* had to run out, and for every job the number of its processes still     *)
(* alive afterwards is one the model allows.  (That the model's outcomes   *)
(* satisfy C08 is what MC_ProcQuit checks; a trace that conforms inherits  *)
(* it.)                                                                    *)
(*                                                                         *)
(* One step per trace line.  What happens between the quit and the end of  *)
(* the main task is not logged: the `quit` line computes the set of states *)
(* the model can come to rest in (Finals), the later lines narrow it.      *)
(***************************************************************************)
EXTENDS ProcQuit, Json, IOUtils

Rec == ndJsonDeserialize(IOEnv.TRACE)

VARIABLES l, cfg, manner, graceMs, F

PreName(w) == CASE w = 0 -> "none" [] w = 1 -> "start" [] w = 2 -> "stop" [] OTHER -> "gstop"

TraceInit == l = 1 /\ cfg = <<>> /\ manner = "" /\ graceMs = 0 /\ F = {}

TReset ==
    LET r == Rec[l] IN
    /\ r.e = "reset"
    /\ cfg' = <<>> /\ manner' = r.b /\ graceMs' = r.x /\ F' = {}

TJob ==
    LET r == Rec[l] IN
    /\ r.e = "job" /\ r.n = Len(cfg) + 1
    /\ r.a \in Wraps /\ r.b \in Classes
    /\ cfg' = Append(cfg, InitJob(r.a, r.b, PreName(r.w)))
    /\ UNCHANGED <<manner, graceMs, F>>

TInfo ==
    /\ Rec[l].e \in {"started", "end"}
    /\ UNCHANGED <<cfg, manner, graceMs, F>>

TQuit ==
    LET r == Rec[l] IN
    /\ r.e = "quit" /\ (r.x = 1) = (manner = "graceful")
    /\ F' = Finals(InitState(cfg, manner, IF graceMs = 0 THEN 0 ELSE 1))
    /\ UNCHANGED <<cfg, manner, graceMs>>

\* the main task ended (a `main_hang` line has no counterpart: the model always ends)
MustExpire == F # {} /\ \A f \in F : \E j \in DOMAIN f.jobs : f.jobs[j].expired
NoGstop    == \A j \in DOMAIN cfg : cfg[j].pre # "gstop"
TMainEnd ==
    LET r == Rec[l] IN
    /\ r.e = "main_end" /\ r.a = "ok"
    /\ F # {} /\ \A f \in F : MainEnds(f)
    \* no kill before the grace period has elapsed: when every outcome needs the timer to run
    \* out, the quit cannot have taken less than the grace period
    /\ (MustExpire /\ NoGstop) => r.x >= graceMs
    /\ UNCHANGED <<cfg, manner, graceMs, F>>

TSurvivors ==
    LET r  == Rec[l]
        F2 == {f \in F : Alive(f.jobs[r.n]) = r.x}
    IN  /\ r.e = "survivors" /\ r.n \in DOMAIN cfg
        /\ F2 # {}
        /\ F' = F2
        /\ UNCHANGED <<cfg, manner, graceMs>>

TraceNext ==
    /\ l <= Len(Rec) /\ l' = l + 1
    /\ (TReset \/ TJob \/ TInfo \/ TQuit \/ TMainEnd \/ TSurvivors)
TraceSpec == TraceInit /\ [][TraceNext]_<<l, cfg, manner, graceMs, F>>

TraceAccepted ==
    LET d == TLCGet("stats").diameter IN
    IF d - 1 = Len(Rec) THEN TRUE
    ELSE /\ PrintT(<<"TRACE-REJECTED at line", d, Rec[d]>>) /\ FALSE
=============================================================================
