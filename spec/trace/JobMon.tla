------------------------------- MODULE JobMon -------------------------------
(***************************************************************************)
(* Per-property monitors over recorded traces of the job family.           *)
(*                                                                         *)
(* JobTrace decides conformance (C09): is the trace a behaviour of         *)
(* JobTask?  This module decides C04, C06, C07 and C10 on the same traces  *)
(* directly, as deterministic automata over the observable alphabet, so    *)
(* that a deviation is attributed to the property it breaks and to no      *)
(* other.  Every line is consumed; a property is violated when its set of  *)
(* complaints becomes non-empty (invariants MonC04 .. MonC10).             *)
(*                                                                         *)
(* Traces come from the current-thread, paused-clock driver: the recorded  *)
(* order is the real order and equal timestamps mean the same instant.     *)
(***************************************************************************)
EXTENDS Integers, Sequences, FiniteSets, TLC, Json, IOUtils, JobDefs

Rec == ndJsonDeserialize(IOEnv.TRACE)

VARIABLES l, M

NoG == [on |-> FALSE, n |-> 0, id |-> 0, deadline |-> 0, restart |-> FALSE]
NoX == [on |-> FALSE, n |-> 0, sig |-> 0, id |-> 0, grace |-> 0, restart |-> FALSE, graceful |-> FALSE]

InitM == [
    t |-> 0, kids |-> <<>>,
    gone |-> FALSE, ended |-> FALSE,
    cur |-> 0, running |-> FALSE, unreaped |-> {},
    mU |-> <<>>, mH |-> <<>>, mN |-> <<>>,
    fromTimer |-> FALSE, ctx |-> "",
    g |-> NoG, x |-> NoX, owed |-> FALSE, killOK |-> TRUE, inKill |-> FALSE,
    due |-> {}, dueAtEnd |-> {}, dueNow |-> {}, raised |-> {}, sent |-> {},
    waiters |-> <<>>, woken |-> <<>>,
    b04 |-> {}, b06 |-> {}, b07 |-> {}, b10 |-> {} ]

C04(m, why) == [m EXCEPT !.b04 = @ \cup {why}]
C06(m, why) == [m EXCEPT !.b06 = @ \cup {why}]
C07(m, why) == [m EXCEPT !.b07 = @ \cup {why}]
C10(m, why) == [m EXCEPT !.b10 = @ \cup {why}]

KidSigFails(m, n) ==
    IF m.kids = <<>> THEN FALSE
    ELSE IF n <= Len(m.kids) THEN m.kids[n].sig_fail ELSE m.kids[Len(m.kids)].sig_fail

\* the end of a task step: every control completed in it must have raised its flag
Boundary(m) ==
    LET m1 == IF m.due # {} THEN C07(m, "a control completed without resolving its ticket") ELSE m
        m2 == IF m.x.on /\ m.x.graceful
              THEN C06(m1, "graceful control did not signal the process first") ELSE m1
    IN  [m2 EXCEPT !.due = {}, !.x = NoX, !.inKill = FALSE, !.killOK = TRUE, !.ctx = ""]

\* the clock is about to move from m.t to t
Advance(m, t) ==
    LET m0 == Boundary(m)
        unwoken == {id \in m0.sent : (id \in m0.raised \/ m0.gone) /\ m0.woken[id] # m0.waiters[id]}
        m1 == IF unwoken # {}
              THEN C07(m0, "a task awaiting a resolved ticket was not woken in that instant") ELSE m0
        m2 == IF m1.g.on /\ t > m1.g.deadline
              THEN C06(m1, "process still running after the grace period expired") ELSE m1
        m3 == IF m2.owed /\ ~m2.running /\ ~m2.ended
              THEN C06(m2, "graceful restart: no replacement when the old process ended") ELSE m2
        m4 == IF m3.ended /\ ~m3.gone
              THEN C07(m3, "job ended without raising its gone flag") ELSE m3
        \* tickets that wait for the process to end (graceful stop, wait-for-end) must be resolved
        \* in the instant it ended, by their own flag or by the job's
        m5 == IF ~m4.gone /\ (m4.dueNow \ m4.raised) # {}
              THEN C07(m4, "the process ended but a ticket waiting for that did not resolve") ELSE m4
    IN  [m5 EXCEPT !.t = t, !.dueNow = {}]

\* a task-side event other than the expected signal
NotSignal(m) ==
    IF m.x.on /\ m.x.graceful
    THEN [C06(m, "graceful control did not signal the process first") EXCEPT !.x = NoX]
    ELSE [m EXCEPT !.x = NoX]

AddDue(m, id) == IF id > 0 THEN [m EXCEPT !.due = @ \cup {id}] ELSE m
AddDueAtEnd(m, id) == IF id > 0 THEN [m EXCEPT !.dueAtEnd = @ \cup {id}] ELSE m

HeadIs(q, r) == q # <<>> /\ Head(q).ctl = r.a /\ Head(q).id = r.id

OnSend(m, r) ==
    IF r.a = "drop_handle" \/ r.n = 0 THEN m
    ELSE LET m1 == [m EXCEPT !.sent = @ \cup {r.id},
                             !.waiters = (r.id :> r.w) @@ @,
                             !.woken = (r.id :> 0) @@ @]
         IN  IF m.gone THEN [m1 EXCEPT !.raised = @ \cup {r.id}]
             ELSE LET e == Expand(r.a, r.id, SigNum(r.b), r.x, r.x) IN
                  CASE e.q = "U" -> [m1 EXCEPT !.mU = @ \o e.ms]
                    [] e.q = "H" -> [m1 EXCEPT !.mH = @ \o e.ms]
                    [] e.q = "N" -> [m1 EXCEPT !.mN = @ \o e.ms]

\* effect of the control itself, once its source is known
OnControl(m, r, src, msg) ==
    LET t == r.t
        stopOK == src = "U" \/ ~m.g.on \/ (src = "T" /\ t >= m.g.deadline)
    IN
    CASE r.a = "Start" -> AddDue(m, r.id)
      [] r.a = "Stop" -> [AddDue(m, r.id) EXCEPT !.killOK = stopOK]
      [] r.a = "TryRestart" -> [AddDue(m, r.id) EXCEPT !.killOK = stopOK]
      [] r.a = "ContinueTryGracefulRestart" ->
            [AddDue(m, r.id) EXCEPT !.killOK = (src = "T" /\ t >= m.g.deadline) \/ ~m.g.on,
                                    !.ctx = "restart"]
      [] r.a \in {"GracefulStop", "TryGracefulRestart"} ->
            IF m.running
            THEN [AddDueAtEnd(m, r.id) EXCEPT
                     !.x = [on |-> TRUE, n |-> m.cur, sig |-> msg.sig, id |-> r.id,
                            grace |-> msg.grace, restart |-> r.a = "TryGracefulRestart",
                            graceful |-> TRUE]]
            ELSE AddDue(m, r.id)
      [] r.a = "Signal" -> AddDue(m, r.id)
      [] r.a = "NextEnding" -> IF m.running THEN AddDueAtEnd(m, r.id) ELSE AddDue(m, r.id)
      [] OTHER -> AddDue(m, r.id)

OnDeq(m0, r) ==
    IF m0.fromTimer
    THEN LET m == [m0 EXCEPT !.fromTimer = FALSE]
             m1 == IF r.a \notin {"Stop", "ContinueTryGracefulRestart"}
                   THEN C06(m, "timer produced an unexpected control") ELSE m
         IN  OnControl(m1, r, "T", [sig |-> 0, grace |-> 0])
    ELSE
    LET m == Boundary(m0) IN
    IF HeadIs(m.mU, r)
    THEN OnControl([m EXCEPT !.mU = Tail(@)], r, "U", Head(m.mU))
    ELSE IF HeadIs(m.mH, r)
    THEN LET m1 == IF m.mU # <<>>
                   THEN C10(m, "a high-priority control ran while an urgent one was pending") ELSE m
         IN  OnControl([m1 EXCEPT !.mH = Tail(@)], r, "H", Head(m.mH))
    ELSE IF HeadIs(m.mN, r)
    THEN LET m1 == IF m.mU # <<>> \/ m.mH # <<>>
                   THEN C10(m, "a normal control ran while an urgent or high-priority one was pending")
                   ELSE m
             m2 == IF m1.g.on
                   THEN C06(m1, "a normal-priority control ran during the grace period") ELSE m1
         IN  OnControl([m2 EXCEPT !.mN = Tail(@)], r, "N", Head(m.mN))
    ELSE C07(C10(m, "a control ran that was not the oldest pending one of its priority"),
             "a control ran that was not sent, or ran twice")

OnTimerFired(m0, r) ==
    LET m == Boundary(m0)
        m1 == IF ~m.g.on THEN C06(m, "grace timer fired although no graceful stop was pending")
              ELSE IF r.t < m.g.deadline THEN C06(m, "forced stop before the grace period elapsed")
              ELSE m
    IN  [m1 EXCEPT !.fromTimer = TRUE]

OnSignal(m, r) ==
    IF m.x.on
    THEN LET m1 == IF m.x.graceful /\ (r.n # m.x.n \/ r.x # m.x.sig)
                   THEN C06(m, "graceful control sent the wrong signal or signalled the wrong process")
                   ELSE m
         IN  IF ~m.x.graceful THEN [m1 EXCEPT !.x = NoX]
             ELSE IF KidSigFails(m, r.n)
             THEN \* signalling failed: the control completes at once
                  [m1 EXCEPT !.x = NoX, !.dueAtEnd = @ \ {m.x.id},
                             !.due = IF m.x.id > 0 THEN @ \cup {m.x.id} ELSE @]
             ELSE [m1 EXCEPT !.x = NoX,
                             !.g = [on |-> TRUE, n |-> r.n, id |-> m.x.id,
                                    deadline |-> r.t + m.x.grace, restart |-> m.x.restart],
                             !.owed = m.x.restart]
    ELSE m

OnKill(m0, r) ==
    LET m == NotSignal(m0)
        m1 == IF m.g.on /\ m.g.n = r.n /\ ~m.killOK
              THEN C06(m, "process force-killed although its grace period had not expired") ELSE m
    IN  [m1 EXCEPT !.inKill = TRUE]

OnWaitRet(m0, r) ==
    LET ma == NotSignal(m0)
        m  == IF ma.inKill THEN ma ELSE [Boundary(ma) EXCEPT !.ctx = "wait"]
    IN  [m EXCEPT !.unreaped = @ \ {r.n},
                  !.running = IF r.n = m.cur THEN FALSE ELSE @,
                  !.g = IF m.g.on /\ m.g.n = r.n THEN NoG ELSE @,
                  !.dueNow = @ \cup m.dueAtEnd,
                  !.dueAtEnd = {}]

OnSpawnAttempt(m0, r, ok) ==
    LET m  == NotSignal(m0)
        m1 == IF ok /\ m.unreaped # {}
              THEN C04(m, "a process was spawned while an earlier one had not been reaped") ELSE m
        m2 == IF m1.g.on
              THEN C06(m1, "replacement started before the old process had ended") ELSE m1
        m3 == IF m2.ctx \in {"wait", "restart"} /\ ~m2.owed
              THEN C06(m2, "a graceful restart started its replacement more than once") ELSE m2
        m4 == IF m3.ctx \in {"wait", "restart"} THEN [m3 EXCEPT !.owed = FALSE] ELSE m3
    IN  IF ok THEN [m4 EXCEPT !.unreaped = @ \cup {r.n}, !.cur = r.n, !.running = TRUE]
        ELSE m4

OnRaise(m, r) ==
    IF r.id = -1 THEN [m EXCEPT !.gone = TRUE]
    ELSE IF r.id > 0
    THEN [m EXCEPT !.raised = @ \cup {r.id}, !.due = @ \ {r.id}, !.dueAtEnd = @ \ {r.id},
                   !.dueNow = @ \ {r.id}]
    ELSE m

OnResolved(m, r) ==
    IF r.id \in m.sent THEN [m EXCEPT !.woken = [@ EXCEPT ![r.id] = @ + 1]] ELSE m

RangeOf(f) == {f[i] : i \in DOMAIN f}

OnEnd(m, r) ==
    LET stuck == {id \in RangeOf(r.pending) : ~(id \in m.dueAtEnd /\ m.running)}
        m1 == IF stuck # {} THEN C07(m, "a ticket never resolved") ELSE m
        m2 == IF ~m1.gone /\ (m1.mU # <<>> \/ m1.mH # <<>> \/ m1.mN # <<>>)
              THEN C10(C07(m1, "a control sent to a live job was never executed"),
                       "a control sent to a live job was never executed")
              ELSE m1
    IN  m2

Step(m0, r) ==
    IF r.e = "reset" THEN [InitM EXCEPT !.kids = r.kids]
    ELSE
    LET m == IF r.t > m0.t THEN Advance(m0, r.t) ELSE m0 IN
    CASE r.e = "send" -> OnSend(m, r)
      [] r.e = "deq" -> OnDeq(m, r)
      [] r.e = "timer_fired" -> OnTimerFired(m, r)
      [] r.e = "signal" -> OnSignal(m, r)
      [] r.e = "kill" -> OnKill(m, r)
      [] r.e = "wait_ret" -> OnWaitRet(m, r)
      [] r.e = "spawn" -> OnSpawnAttempt(m, r, TRUE)
      [] r.e = "spawn_failed" -> OnSpawnAttempt(m, r, FALSE)
      [] r.e = "raise" -> OnRaise(m, r)
      [] r.e = "resolved" -> OnResolved(m, r)
      [] r.e = "loop_exit" -> [Boundary(m) EXCEPT !.ended = TRUE]
      [] r.e = "task_end" ->
            IF r.a = "panicked" THEN C07(m, "the job task panicked") ELSE m
      [] r.e = "end" -> OnEnd(m, r)
      [] r.e = "err" ->
            \* a kill that fails cannot end the process: outside what C06 quantifies over
            IF r.a = "injected kill failure" THEN [m EXCEPT !.g = NoG, !.owed = FALSE] ELSE m
      [] OTHER -> m       \* hook, marker, drop, waited, err, try_wait: not these monitors' concern

MonInit == l = 1 /\ M = InitM

MonNext ==
    /\ l <= Len(Rec)
    /\ l' = l + 1
    /\ M' = Step(M, Rec[l])

MonSpec == MonInit /\ [][MonNext]_<<l, M>>

MonC04 == M.b04 = {}
MonC06 == M.b06 = {}
MonC07 == M.b07 = {}
MonC10 == M.b10 = {}

MonDone ==
    LET d == TLCGet("stats").diameter IN
    IF d - 1 = Len(Rec) THEN TRUE
    ELSE /\ PrintT(<<"TRACE-REJECTED at line", d, Rec[d]>>)
         /\ FALSE
=============================================================================
