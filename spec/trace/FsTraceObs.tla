----------------------------- MODULE FsTraceObs -----------------------------
(***************************************************************************)
(* The same question as FsTrace - is the recorded run of the filesystem    *)
(* worker a behaviour of FsWorker? - asked of what can be observed from    *)
(* outside only: the calls on the (fake) watcher (create, drop, watch,     *)
(* unwatch), the runtime errors, the events that reach the queue, the      *)
(* driver's own lines.  The trace points inside the worker's loop are      *)
(* hints: FsTrace uses them to follow the loop step by step in linear      *)
(* time; here they are neither required nor believed, and the steps of     *)
(* the specification that show nothing but hints are taken silently.       *)
(*                                                                         *)
(* A run that FsTrace rejects is put to this specification before it is    *)
(* reported: a worker whose loop is organised differently (a step skipped  *)
(* when there is nothing to do, trace points moved) but which makes the    *)
(* same calls and reports the same errors is not a violation.              *)
(* Acceptance is the furthest line reached (a TLC register; -workers 1).   *)
(***************************************************************************)
EXTENDS FsWorker, Json, IOUtils

Rec == ndJsonDeserialize(IOEnv.TRACE)

VARIABLES l, oi, errSeen, evcap, pendOut

tvars == <<fvars, l, oi, errSeen, evcap, pendOut>>

Hints == {"cfg_wait", "fs_wake", "fs_release", "fs_nonempty", "fs_kind", "fs_plan"}
Vis(out) == SelectSeq(out, LAMBDA x : x.e \notin Hints)

OutDone == oi = Len(Vis(F.out))
Match(r, x) == r.e = x.e /\ r.a = x.a /\ r.b = x.b /\ r.x = x.x /\ r.n = x.n
ToSet(s) == {s[i] : i \in DOMAIN s}
R == Rec[l]
More == l <= Len(Rec)
Consume == l' = l + 1

TraceInit ==
    /\ TLCSet(1, 0)
    /\ l = 1 /\ oi = 0 /\ errSeen = 0 /\ evcap = 1 /\ pendOut = -1
    /\ cfgPaths = {} /\ cfgKind = "native" /\ ver = 0 /\ failWatch = {} /\ failUnwatch = {}
    /\ F = InitF /\ errs = <<>>

TReset ==
    /\ More /\ R.e = "reset"
    /\ cfgPaths' = ToSet(R.kids) /\ cfgKind' = "native" /\ ver' = 0
    /\ failWatch' = ToSet(R.fw) /\ failUnwatch' = ToSet(R.fu)
    /\ F' = InitF /\ errs' = <<>> /\ oi' = 0 /\ errSeen' = 0 /\ evcap' = R.x /\ pendOut' = -1
    /\ Consume

TCfg ==
    /\ More /\ R.e = "cfg"
    /\ CASE R.a = "paths" -> SetPaths(ToSet(R.kids))
         [] R.a = "kind"  -> SetKind(R.b)
         [] R.a = "other" -> OtherChange
    /\ Consume /\ UNCHANGED <<oi, errSeen, evcap, pendOut>>

\* a step of the worker that shows: its first visible observation is the current line
TStep ==
    /\ More /\ OutDone
    /\ WorkerStep
    /\ Vis(F'.out) # <<>>
    /\ Match(R, Vis(F'.out)[1])
    /\ oi' = 1
    /\ Consume /\ UNCHANGED <<errSeen, evcap, pendOut>>

\* a step that shows nothing
TSilent ==
    /\ More /\ R.e # "reset" /\ OutDone
    /\ WorkerStep
    /\ Vis(F'.out) = <<>>
    /\ oi' = 0
    /\ UNCHANGED <<l, errSeen, evcap, pendOut>>

TConsume ==
    /\ More /\ ~OutDone
    /\ Match(R, Vis(F.out)[oi + 1])
    /\ oi' = oi + 1
    /\ Consume /\ UNCHANGED <<fvars, errSeen, evcap, pendOut>>

\* a trace point: says nothing here
THint ==
    /\ More /\ R.e \in Hints
    /\ Consume /\ UNCHANGED <<fvars, oi, errSeen, evcap, pendOut>>

TError ==
    /\ More /\ R.e = "error"
    /\ errSeen < Len(errs)
    /\ errs[errSeen + 1].op = R.a
    /\ LET p == errs[errSeen + 1].path IN R.b = p \/ R.b \o "!" = p
    /\ errSeen' = errSeen + 1
    /\ Consume /\ UNCHANGED <<fvars, oi, evcap, pendOut>>

TIdle ==
    /\ More /\ R.e = "idle"
    /\ OutDone /\ WorkerIdle
    /\ Consume /\ UNCHANGED <<fvars, oi, errSeen, evcap, pendOut>>

TEnd ==
    /\ More /\ R.e = "end"
    /\ OutDone
    /\ WorkerIdle
    /\ Converged
    /\ errSeen = Len(errs)
    /\ R.a = (IF F.watcher.on THEN F.watcher.kind ELSE "none")
    /\ ToSet(R.kids) = F.watcher.reg
    /\ pendOut = -1
    /\ Consume /\ UNCHANGED <<fvars, oi, errSeen, evcap, pendOut>>

TEmit ==
    LET k == IF F.watcher.on THEN R.x ELSE 0
        e == IF F.watcher.on THEN R.n ELSE 0
    IN
    /\ More /\ R.e = "emit" /\ OutDone /\ pendOut = -1
    /\ CallbackBurst(k, e, evcap)
    /\ pendOut' = IF k < evcap THEN k ELSE evcap
    /\ Consume /\ UNCHANGED <<oi, errSeen, evcap>>

TEventOut ==
    /\ More /\ R.e = "event_out" /\ pendOut >= 0
    /\ R.x = pendOut /\ R.a = "ok"
    /\ pendOut' = -1
    /\ Consume /\ UNCHANGED <<fvars, oi, errSeen, evcap>>

TraceNext == TReset \/ TCfg \/ TStep \/ TSilent \/ TConsume \/ THint \/ TError \/ TIdle \/ TEmit \/ TEventOut \/ TEnd

TraceSpec == TraceInit /\ [][TraceNext]_tvars

Progress == TLCSet(1, IF l > TLCGet(1) THEN l ELSE TLCGet(1))

TraceAccepted ==
    LET d == TLCGet(1) IN
    IF d = Len(Rec) + 1 THEN TRUE
    ELSE /\ PrintT(<<"TRACE-REJECTED at line", d, Rec[d]>>) /\ FALSE
=============================================================================
