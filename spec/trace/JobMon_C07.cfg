SPECIFICATION MonSpec
INVARIANT MonC07
POSTCONDITION MonDone
CHECK_DEADLOCK FALSE
