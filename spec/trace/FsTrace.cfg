SPECIFICATION TraceSpec
CONSTANTS
  Paths = {"a", "a!", "b", "c"}
  Kinds = {"native", "poll", "poll2"}
  Fixes <- AllFsFixes
  Tracing = TRUE
VIEW TraceView
POSTCONDITION TraceAccepted
CHECK_DEADLOCK FALSE
