SPECIFICATION MonSpec
INVARIANT MonMt
POSTCONDITION MonDone
CHECK_DEADLOCK FALSE
