SPECIFICATION MonSpec
INVARIANT MonC08
POSTCONDITION MonDone
CHECK_DEADLOCK FALSE
