------------------------------ MODULE CliE2EMon ------------------------------
(***************************************************************************)
(* C05 end to end: the real command-line program (its own run(): argument  *)
(* parsing, the initial event unless --postpone, the real watcher, the     *)
(* real command) under scripted file changes.  The supervised command      *)
(* writes its own log (start / signal / end); the driver adds the changes  *)
(* it made and the final SIGTERM.  Real time, so only what does not depend *)
(* on exact timing is demanded; the changes of a script are hundreds of    *)
(* milliseconds apart and the verdict is taken when the scenario is        *)
(* stopped, long after the last change:                                    *)
(*   - runs never overlap;                                                 *)
(*   - without --postpone the command runs at once, with it only after the *)
(*     first change; no run that nothing asked for;                        *)
(*   - a change while the command runs: do-nothing - nothing happens;      *)
(*     signal - exactly one signal, the configured one, no new run;        *)
(*     restart - the stop signal, then a fresh run; queue - no signal, a   *)
(*     fresh run once the current one has ended;                           *)
(*   - a change while nothing runs starts a run;                           *)
(*   - the program exits when told to.                                     *)
(***************************************************************************)
EXTENDS Integers, Sequences, FiniteSets, TLC, Json, IOUtils

Rec == ndJsonDeserialize(IOEnv.TRACE)

VARIABLES l, M

InitM == [ mode |-> "", postpone |-> FALSE,
           running |-> 0,       \* the run in progress (0: none)
           runs |-> 0,          \* runs started so far
           changes |-> 0,
           owed |-> 0,          \* runs that must still start (0 or 1)
           sigOwed |-> 0,       \* signal mode: signals the running command must still get
           stopOwed |-> 0,      \* restart mode: the run that must still be stopped (0: none)
           stopping |-> FALSE,
           bad |-> {} ]

Bad(m, why) == [m EXCEPT !.bad = @ \cup {why}]

OnChange(m) ==
    LET m1 == [m EXCEPT !.changes = @ + 1] IN
    IF m.stopping THEN m1
    ELSE IF m.running = 0 THEN [m1 EXCEPT !.owed = 1]
    ELSE CASE m.mode = "do-nothing" -> m1
           [] m.mode = "signal"     -> [m1 EXCEPT !.sigOwed = @ + 1]
           [] m.mode = "restart"    -> [m1 EXCEPT !.stopOwed = m.running, !.owed = 1]
           [] m.mode = "queue"      -> [m1 EXCEPT !.owed = 1]
           [] OTHER -> m1

OnRunStart(m, r) ==
    LET m1 == IF m.running # 0 THEN Bad(m, "two runs of the command overlap") ELSE m
        m2 == IF m1.stopping THEN Bad(m1, "a run started while the program was shutting down")
              ELSE IF m1.owed = 0 THEN Bad(m1, "a run started that nothing asked for")
              ELSE IF m1.stopOwed # 0 THEN Bad(m1, "restart: the fresh run started although the old one had not been stopped")
              ELSE m1
    IN  [m2 EXCEPT !.running = r.n, !.runs = @ + 1, !.owed = 0]

OnSig(m, r) ==
    IF m.stopping THEN m             \* the shutdown stops the command
    ELSE CASE m.mode = "signal" ->
                 IF r.a # "USR1" THEN Bad(m, "signal mode: the command got another signal than the configured one")
                 ELSE IF m.sigOwed = 0 THEN Bad(m, "signal mode: a signal nobody asked for")
                 ELSE [m EXCEPT !.sigOwed = @ - 1]
           [] m.mode = "restart" ->
                 IF m.stopOwed = r.n /\ r.a = "TERM" THEN [m EXCEPT !.stopOwed = 0]
                 ELSE Bad(m, "restart: a signal that is not the stop signal of a pending restart")
           [] OTHER -> Bad(m, "this mode must not signal the command")

OnStop(m) ==
    LET m1 == IF m.sigOwed # 0 THEN Bad(m, "signal mode: a change while running was not answered by a signal") ELSE m
        m2 == IF m1.stopOwed # 0 THEN Bad(m1, "restart: a change while running never stopped the command") ELSE m1
        \* a queued run may still be waiting for the current one to end
        m3 == IF m2.owed # 0 /\ ~(m2.mode = "queue" /\ m2.running # 0)
              THEN Bad(m2, "a run that should have started did not") ELSE m2
        m4 == IF ~m3.postpone /\ m3.runs = 0 THEN Bad(m3, "the command was never run although --postpone was not given") ELSE m3
    IN  [m4 EXCEPT !.stopping = TRUE]

Step(m, r) ==
    CASE r.e = "reset" -> [InitM EXCEPT !.mode = r.b, !.postpone = (r.w = 1), !.owed = IF r.w = 1 THEN 0 ELSE 1]
      [] r.e = "change" -> OnChange(m)
      [] r.e = "run_start" -> OnRunStart(m, r)
      [] r.e = "run_end" -> IF m.running = r.n THEN [m EXCEPT !.running = 0] ELSE m
      [] r.e = "sig" -> OnSig(m, r)
      [] r.e = "stop" -> OnStop(m)
      [] r.e = "cli_hang" -> Bad(m, "the program did not exit when told to")
      \* (whether anything survives the shutdown is C08's business; a command killed at the end of the
      \* stop timeout writes no last line)
      [] OTHER -> m

MonInit == l = 1 /\ M = InitM
MonNext == l <= Len(Rec) /\ l' = l + 1 /\ M' = Step(M, Rec[l])
MonSpec == MonInit /\ [][MonNext]_<<l, M>>

MonC05e == M.bad = {}

MonDone ==
    LET d == TLCGet("stats").diameter IN
    IF d - 1 = Len(Rec) THEN TRUE
    ELSE /\ PrintT(<<"TRACE-REJECTED at line", d, Rec[d]>>) /\ FALSE
=============================================================================
