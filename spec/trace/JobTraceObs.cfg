SPECIFICATION TraceSpec
CONSTANTS
  Inf = 2000000000
  Fixes <- AllFixes
  Tracing = TRUE
VIEW TraceView
CONSTRAINT Progress
POSTCONDITION TraceAccepted
CHECK_DEADLOCK FALSE
