SPECIFICATION MonSpec
INVARIANT MonC05e
POSTCONDITION MonDone
CHECK_DEADLOCK FALSE
