------------------------------ MODULE JobTrace ------------------------------
(***************************************************************************)
(* Trace validation for the job family: is a recorded execution of the     *)
(* real watchexec-supervisor (driven by harness/src/bin/job_driver.rs) a   *)
(* behaviour of JobTask?                                                   *)
(*                                                                         *)
(* One TLC step per trace line.  Every task step of JobTask computes the   *)
(* exact observations it must produce (S.out); the first one has to be the *)
(* current line, the following lines have to be the remaining ones in      *)
(* order.  Driver-side lines (send, resolved, task_end) may fall between.  *)
(* Time comes from the trace: it may only advance when nothing of the spec *)
(* is enabled, every raised ticket has woken all its waiters, and no       *)
(* deadline (child exit, grace expiry) lies in between.                    *)
(***************************************************************************)
EXTENDS JobTask, Json, IOUtils

Rec == ndJsonDeserialize(IOEnv.TRACE)

VARIABLES
    l,          \* next line of the trace
    oi,         \* how many observations of the current step have been matched
    waiters,    \* ticket id -> number of tasks awaiting it
    woken,      \* ticket id -> number of `resolved` lines seen
    endSeen     \* the task's JoinHandle has completed

tvars == <<vars, l, oi, waiters, woken, endSeen>>

Match(r, x) ==
    /\ r.e = x.e /\ r.id = x.id /\ r.n = x.n /\ r.a = x.a /\ r.b = x.b /\ r.x = x.x

OutDone == oi = Len(S.out)

Resolved(id) == id \in S.raised \/ id \in cancelled \/ S.gone

AllWoken == \A id \in sent : Resolved(id) => woken[id] = waiters[id]

AtRest == OutDone /\ ~TaskEnabled(now) /\ AllWoken

TimeOK(t) == t = now \/ (t > now /\ AtRest /\ t <= NextDeadline)

KidsFrom(ks) ==
    [i \in 1..Len(ks) |->
        [selfAt |-> ks[i].self_at, sigd |-> ks[i].sig_delay, fail |-> ks[i].fail,
         killFail |-> ks[i].kill_fail, sigFail |-> ks[i].sig_fail, code |-> ks[i].code]]

TraceInit ==
    /\ l = 1 /\ oi = 0
    /\ now = 0 /\ qU = <<>> /\ qH = <<>> /\ qN = <<>> /\ closed = FALSE /\ parked = FALSE
    /\ kids = <<>> /\ S = InitS /\ sent = {} /\ cancelled = {} /\ nextSn = 1 /\ viol = {}
    /\ waiters = <<>> /\ woken = <<>> /\ endSeen = FALSE

TReset ==
    /\ Rec[l].e = "reset"
    /\ now' = 0 /\ qU' = <<>> /\ qH' = <<>> /\ qN' = <<>> /\ closed' = FALSE /\ parked' = FALSE
    /\ kids' = KidsFrom(Rec[l].kids)
    /\ S' = InitS /\ sent' = {} /\ cancelled' = {} /\ nextSn' = 1 /\ viol' = {}
    /\ waiters' = <<>> /\ woken' = <<>> /\ endSeen' = FALSE /\ oi' = 0

TSend ==
    LET r == Rec[l] IN
    /\ r.e = "send"
    /\ TimeOK(r.t) /\ now' = r.t
    /\ IF r.a = "drop_handle" THEN
            /\ IF closed
               THEN UNCHANGED <<qU, qH, qN, closed, parked, kids, S, sent, cancelled, nextSn, viol>>
               ELSE DropHandle
            /\ UNCHANGED <<waiters, woken>>
       ELSE IF r.n = 0 THEN      \* no handle left, or an operation without a ticket
            /\ UNCHANGED <<qU, qH, qN, closed, parked, kids, S, sent, cancelled, nextSn, viol>>
            /\ UNCHANGED <<waiters, woken>>
       ELSE /\ Send(r.a, r.id, SigNum(r.b), r.x, r.x)
            /\ waiters' = (r.id :> r.w) @@ waiters
            /\ woken' = (r.id :> 0) @@ woken
    /\ UNCHANGED <<oi, endSeen>>

\* a task step whose first observation is the current line
TStep ==
    LET r == Rec[l] IN
    /\ OutDone
    /\ TimeOK(r.t)
    /\ \/ WaitStep(r.t)
       \/ AsyncDoneStep(r.t)
       \/ \E src \in {"T", "U", "H", "N", "X"} : RecvStep(src, r.t)
    /\ Len(S'.out) > 0
    /\ Match(r, S'.out[1])
    /\ oi' = 1
    /\ UNCHANGED <<waiters, woken, endSeen>>

\* the next observation of the current step
\* Flags raised one after the other inside one step are raised "in that instant": nothing in the
\* documented semantics orders them, so a run of consecutive `raise` observations may come in any order.
RECURSIVE RaiseRunEnd(_)
RaiseRunEnd(i) == IF i < Len(S.out) /\ S.out[i + 1].e = "raise" THEN RaiseRunEnd(i + 1) ELSE i
Swap(q, i, j) == [k \in DOMAIN q |-> IF k = i THEN q[j] ELSE IF k = j THEN q[i] ELSE q[k]]

TConsume ==
    LET r == Rec[l]
        x == S.out[oi + 1]
    IN  /\ ~OutDone
        /\ r.t = now
        /\ IF x.e = "raise" /\ r.e = "raise" /\ ~Match(r, x)
           THEN \E j \in (oi + 2)..RaiseRunEnd(oi + 1) :
                    /\ Match(r, S.out[j])
                    /\ S' = [S EXCEPT !.out = Swap(@, oi + 1, j)]
           ELSE Match(r, x) /\ S' = S
        /\ oi' = oi + 1
        /\ UNCHANGED <<now, qU, qH, qN, closed, parked, kids, sent, cancelled, nextSn, viol, waiters, woken, endSeen>>

\* a task awaiting a ticket completes
TResolved ==
    LET r == Rec[l] IN
    /\ r.e = "resolved"
    /\ r.t = now
    /\ r.id \in sent
    /\ Resolved(r.id)
    /\ woken[r.id] < waiters[r.id]
    /\ woken' = [woken EXCEPT ![r.id] = @ + 1]
    /\ UNCHANGED <<vars, oi, waiters, endSeen>>

TTaskEnd ==
    LET r == Rec[l] IN
    /\ r.e = "task_end"
    /\ r.t = now
    /\ r.a = "ok"
    /\ S.task = "ended"
    /\ ~endSeen
    /\ endSeen' = TRUE
    /\ UNCHANGED <<vars, oi, waiters, woken>>

RangeOf(f) == {f[i] : i \in DOMAIN f}

\* the horizon: everything is at rest and the tickets still pending are exactly the spec's
TEnd ==
    LET r == Rec[l] IN
    /\ r.e = "end"
    /\ TimeOK(r.t) /\ now' = r.t
    /\ AtRest
    /\ NextDeadline >= r.t
    /\ RangeOf(r.pending) = {id \in sent : ~Resolved(id)}
    /\ S.task = "ended" => endSeen
    /\ S.task # "panicked"
    /\ UNCHANGED <<qU, qH, qN, closed, parked, kids, S, sent, cancelled, nextSn, viol>>
    /\ UNCHANGED <<oi, waiters, woken, endSeen>>

TraceNext ==
    /\ l <= Len(Rec)
    /\ l' = l + 1
    /\ (TReset \/ TSend \/ TStep \/ TConsume \/ TResolved \/ TTaskEnd \/ TEnd)

TraceSpec == TraceInit /\ [][TraceNext]_tvars

\* hide `l`-independent history so identical situations collapse
TraceView == <<l, oi, now, qU, qH, qN, closed, kids, S, sent, cancelled, woken, endSeen>>

TraceAccepted ==
    LET d == TLCGet("stats").diameter IN
    IF d - 1 = Len(Rec) THEN TRUE
    ELSE /\ PrintT(<<"TRACE-REJECTED at line", d, Rec[d]>>)
         /\ FALSE

=============================================================================
