SPECIFICATION MonSpec
INVARIANT MonMtC04
POSTCONDITION MonDone
CHECK_DEADLOCK FALSE
