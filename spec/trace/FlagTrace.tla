------------------------------ MODULE FlagTrace ------------------------------
(***************************************************************************)
(* Multi-threaded runs of the real Flag (flag_driver: several waiting      *)
(* threads, one or two raising threads, per scenario) against Flag.tla.    *)
(* One step per recorded line.  Lines come from the trace points inside    *)
(* Flag::poll / Flag::raise (flag_fast, flag_check, flag_reg, raise,       *)
(* flag_take) and from the driver (poll_start, poll_ret, woken, raised,    *)
(* stuck, end).                                                            *)
(*                                                                         *)
(* Order of the lines vs order of the steps: flag_check, flag_reg and      *)
(* flag_take are emitted while the flag's mutex is held, so their order is *)
(* the order of the critical sections.  `raise` is emitted before the      *)
(* store and the store is taken to happen there: a load that returned      *)
(* "raised" was made after the store, hence after that line; a load that   *)
(* returned "not raised" is allowed anyway unless the loading thread has   *)
(* since acquired the mutex after a raiser released it (MayRead).          *)
(* Acquiring the mutex is not logged: it is composed with the step that    *)
(* follows it (TCheck).                                                    *)
(***************************************************************************)
EXTENDS Flag, Sequences, Json, IOUtils

Rec == ndJsonDeserialize(IOEnv.TRACE)

VARIABLE l
tvars == <<set, lock, released, wakers, tpc, tseen, woken, rpc, rtaken, l>>

TraceInit == l = 1 /\ Init

TReset ==
    LET r == Rec[l] IN
    /\ r.e = "reset"
    /\ set' = FALSE /\ lock' = Free /\ released' = FALSE /\ wakers' = {}
    /\ tpc' = [t \in Tasks |-> IF t <= r.n THEN "start" ELSE "off"]
    /\ tseen' = [t \in Tasks |-> FALSE] /\ woken' = [t \in Tasks |-> FALSE]
    /\ rpc' = [x \in Raisers |-> IF x - 100 <= r.x THEN "store" ELSE "off"]
    /\ rtaken' = [x \in Raisers |-> {}]

TPollStart == LET r == Rec[l] IN r.e = "poll_start" /\ r.n \in Tasks /\ PollStart(r.n)
TFast      == LET r == Rec[l] IN r.e = "flag_fast" /\ r.n \in Tasks /\ Fast(r.n, r.x = 1)

\* acquire the mutex, then the second load
TCheck ==
    LET r == Rec[l]
        t == r.n
        v == (r.x = 1)
    IN  /\ r.e = "flag_check" /\ t \in Tasks
        /\ tpc[t] = "lock" /\ lock = Free
        /\ LET seen == tseen[t] \/ released IN
           /\ (IF v THEN set ELSE (~set \/ ~seen))
           /\ tseen' = [tseen EXCEPT ![t] = seen]
        /\ IF v THEN /\ tpc' = [tpc EXCEPT ![t] = "ready"] /\ lock' = Free
                ELSE /\ tpc' = [tpc EXCEPT ![t] = "register"] /\ lock' = t
        /\ UNCHANGED <<set, released, wakers, woken, rpc, rtaken>>

TReg ==
    LET r == Rec[l] IN
    /\ r.e = "flag_reg" /\ r.n \in Tasks /\ Register(r.n)
    /\ r.x = Cardinality(wakers')

\* what poll() returned must be what the steps it took amount to
TRet ==
    LET r == Rec[l] IN
    /\ r.e = "poll_ret" /\ r.n \in Tasks
    /\ tpc[r.n] = (IF r.x = 1 THEN "ready" ELSE "pending")
    /\ UNCHANGED vars

TRaise == LET r == Rec[l] IN r.e = "raise" /\ r.n \in Raisers /\ Store(r.n)
TTake ==
    LET r == Rec[l] IN
    /\ r.e = "flag_take" /\ r.n \in Raisers /\ Take(r.n)
    /\ r.x = Cardinality(wakers)

TWoken ==
    LET r == Rec[l]
        t == r.n
    IN  /\ r.e = "woken" /\ t \in Tasks
        /\ \E x \in Raisers :
             /\ rpc[x] = "wake" /\ t \in rtaken[x]
             /\ rtaken' = [rtaken EXCEPT ![x] = @ \ {t}]
        /\ woken' = [woken EXCEPT ![t] = TRUE]
        /\ UNCHANGED <<set, lock, released, wakers, tpc, tseen, rpc>>

TRaised ==
    LET r == Rec[l] IN
    /\ r.e = "raised" /\ r.n \in Raisers
    /\ rpc[r.n] = "wake" /\ rtaken[r.n] = {}
    /\ rpc' = [rpc EXCEPT ![r.n] = "done"]
    /\ UNCHANGED <<set, lock, released, wakers, tpc, tseen, woken, rtaken>>

\* (a `stuck` line - a task that was never woken - has no counterpart)
TEnd ==
    /\ Rec[l].e = "end"
    /\ AllRaised /\ \A t \in Tasks : tpc[t] \in {"ready", "off"}
    /\ UNCHANGED vars

TraceNext ==
    /\ l <= Len(Rec) /\ l' = l + 1
    /\ (TReset \/ TPollStart \/ TFast \/ TCheck \/ TReg \/ TRet \/ TRaise \/ TTake \/ TWoken \/ TRaised \/ TEnd)
TraceSpec == TraceInit /\ [][TraceNext]_tvars

\* the specification's own invariants, on the states the real runs go through
TraceNoLostWakeup == NoLostWakeup

TraceAccepted ==
    LET d == TLCGet("stats").diameter IN
    IF d - 1 = Len(Rec) THEN TRUE
    ELSE /\ PrintT(<<"TRACE-REJECTED at line", d, Rec[d]>>) /\ FALSE
=============================================================================
