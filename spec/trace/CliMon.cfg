SPECIFICATION MonSpec
INVARIANT MonC05
POSTCONDITION MonDone
CHECK_DEADLOCK FALSE
