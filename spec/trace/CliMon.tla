------------------------------- MODULE CliMon -------------------------------
(***************************************************************************)
(* C05 on recorded executions of the CLI's action logic (the real          *)
(* make_config on a real Watchexec, commands simulated, virtual time):     *)
(* the four --on-busy-update modes behave as documented.                   *)
(*                                                                         *)
(* The monitor follows the runs of the command (spawn .. exit status       *)
(* collected), the batches handed to the action handler, and the signals   *)
(* and kills the command receives, and complains when                      *)
(*   - two runs overlap, the first run is missing or a postponed one is    *)
(*     not, a change while idle does not start a run at once;              *)
(*   - do-nothing or queue send a signal or kill, signal mode kills or     *)
(*     signals more or less than once per batch or with another signal;    *)
(*   - restart does not signal at once (when no stop is already pending),  *)
(*     kills at another moment than signal + stop-timeout, or does not     *)
(*     start the fresh run in the instant the old one ended;               *)
(*   - queue starts a run when nothing was queued, or none when something  *)
(*     was, or not in the instant the current run ended;                   *)
(*   - in restart and queue the last change is not followed by a run that  *)
(*     started after it;                                                   *)
(*   - an interrupt / terminate is not answered by the graceful quit.      *)
(***************************************************************************)
EXTENDS Integers, Sequences, FiniteSets, TLC, Json, IOUtils

Rec == ndJsonDeserialize(IOEnv.TRACE)

VARIABLES l, M

InitM == [ t |-> 0, mode |-> "", D |-> 0, G |-> 0, postpone |-> FALSE, delay |-> 0, sig |-> 15,
           kinds |-> <<>>,       \* change id -> kind
           unhandled |-> {},     \* change ids received and not yet handed to the handler
           running |-> 0,        \* the run in progress (0 = none)
           runs |-> 0,
           expectSpawn |-> -1,   \* a run must start at this instant
           queuedFor |-> 0,      \* queue / restart: a further run is owed when this run ends
           carry |-> 0,          \* restart: a change arrived while a stop was already pending; it will
                                 \* act on the next run
           armedAt |-> -1,       \* restart: when the stop signal was sent to the current run
           sigNow |-> 0,         \* signals sent in the current instant
           sigDue |-> 0,         \* signal mode: signals owed in the current instant
           lastChange |-> -1, lastSpawn |-> -1,
           quitting |-> FALSE, quitDue |-> FALSE, ended |-> FALSE,
           bad |-> {} ]

Bad(m, why) == [m EXCEPT !.bad = @ \cup {why}]

IsChange(m, id) == id \in DOMAIN m.kinds /\ m.kinds[id] \in {"change", "empty"}
IsQuitSig(m, id) == id \in DOMAIN m.kinds /\ m.kinds[id] \in {"INT", "TERM"}

\* the clock moves from m.t to t
Advance(m, t) ==
    LET m1 == IF m.expectSpawn >= 0 /\ m.expectSpawn < t /\ ~m.quitting
              THEN Bad(m, "a run that should have started did not") ELSE m
        m2 == IF m1.sigDue # 0 /\ ~m1.quitting
              THEN Bad(m1, "signal mode: a change while running was not answered by exactly one signal") ELSE m1
        m3 == IF m2.quitDue THEN Bad(m2, "an interrupt or terminate signal did not lead to the quit") ELSE m2
        m4 == IF m3.mode = "restart" /\ m3.running # 0 /\ m3.armedAt >= 0 /\ t > m3.armedAt + m3.G /\ ~m3.quitting
              THEN Bad(m3, "restart: the old run was still there after the stop timeout") ELSE m3
    IN  [m4 EXCEPT !.t = t, !.sigNow = 0, !.sigDue = 0, !.quitDue = FALSE,
                   !.expectSpawn = IF @ >= 0 /\ @ < t THEN -1 ELSE @]

OnHandlerCall(m, r) ==
    LET batch   == m.unhandled
        change  == \E id \in batch : IsChange(m, id)
        quitsig == \E id \in batch : IsQuitSig(m, id)
        m0 == [m EXCEPT !.unhandled = {}]
    IN  IF m.quitting THEN m0
        ELSE IF quitsig THEN [m0 EXCEPT !.quitDue = TRUE]
        ELSE IF ~change THEN m0
        ELSE IF m.running = 0 /\ m.expectSpawn = -1
             THEN [m0 EXCEPT !.expectSpawn = m.t + m.delay]
        ELSE IF m.running = 0 THEN m0          \* a run is already about to start
        ELSE CASE m.mode = "do-nothing" -> m0
               [] m.mode = "signal" -> [m0 EXCEPT !.sigDue = @ + 1]
               [] m.mode = "queue" -> [m0 EXCEPT !.queuedFor = m.running]
               [] m.mode = "restart" ->
                     \* with no stop pending the signal goes out now (or after --delay-run)
                     \* a stop already pending, or already owed, for this run: this change acts on the next
                     IF m.armedAt >= 0 \/ m.queuedFor = m.running THEN [m0 EXCEPT !.carry = @ + 1]
                     ELSE [m0 EXCEPT !.queuedFor = m.running]
               [] OTHER -> m0

OnSpawn(m, r) ==
    LET m1 == IF m.running # 0 THEN Bad(m, "two runs of the command overlap") ELSE m
        m2 == IF m1.quitting THEN m1
              ELSE IF m1.expectSpawn = m1.t THEN [m1 EXCEPT !.expectSpawn = -1]
              ELSE IF m1.expectSpawn > m1.t THEN Bad(m1, "a run started before --delay-run had elapsed")
              ELSE Bad(m1, "a run started that nothing asked for")
    IN  [m2 EXCEPT !.running = r.n, !.runs = @ + 1, !.lastSpawn = m.t, !.armedAt = -1,
                   !.queuedFor = IF m2.carry > 0 THEN r.n ELSE @, !.carry = IF @ > 0 THEN @ - 1 ELSE 0]

OnSignal(m, r) ==
    IF m.quitting THEN m
    ELSE LET m1 == IF r.x # m.sig THEN Bad(m, "the command was sent another signal than the configured one") ELSE m IN
         CASE m.mode \in {"do-nothing", "queue"} -> Bad(m1, "this mode must not signal the command")
           [] m.mode = "signal" ->
                 IF m.sigDue = 0 THEN Bad(m1, "signal mode: a signal nobody asked for")
                 ELSE [m1 EXCEPT !.sigDue = @ - 1]
           [] m.mode = "restart" ->
                 IF m.queuedFor # r.n THEN Bad(m1, "restart: a signal although no change was pending for this run")
                 ELSE [m1 EXCEPT !.armedAt = IF @ = -1 THEN m.t ELSE @]
           [] OTHER -> m1

OnKill(m, r) ==
    IF m.quitting THEN m
    ELSE IF m.mode # "restart" THEN Bad(m, "this mode must not kill the command")
    ELSE IF m.armedAt = -1 \/ m.t # m.armedAt + m.G
         THEN Bad(m, "restart: the command was killed at another moment than stop signal + stop timeout")
    ELSE m

\* the exit status of the run in progress has been collected
OnEnd(m, r) ==
    IF r.n # m.running THEN m
    ELSE LET m1 == [m EXCEPT !.running = 0, !.armedAt = -1] IN
         IF m.quitting THEN m1
         ELSE IF m.mode \in {"queue", "restart"} /\ m.queuedFor = r.n
              THEN [m1 EXCEPT !.queuedFor = 0, !.expectSpawn = m.t]
         ELSE [m1 EXCEPT !.queuedFor = 0]

OnFinal(m) ==
    LET m1 == IF ~m.ended /\ ~m.quitting /\ m.mode \in {"restart", "queue"} /\ m.lastChange >= 0
                 /\ m.lastSpawn < m.lastChange
                 /\ ~(m.mode = "queue" /\ m.running # 0)      \* the current run has not ended yet
              THEN Bad(m, "the last change was not followed by a run that started after it") ELSE m
        m2 == IF ~m1.quitting /\ m1.mode = "restart" /\ m1.queuedFor # 0
              THEN Bad(m1, "restart: a change while running never led to a stop") ELSE m1
    IN  m2

Step(m0, r) ==
    IF r.e = "reset"
    THEN [InitM EXCEPT !.mode = r.b, !.D = r.x, !.G = r.n, !.postpone = (r.w = 1), !.delay = r.id,
                       !.sig = r.pending[1]]
    ELSE
    LET m == IF r.t > m0.t THEN Advance(m0, r.t) ELSE m0 IN
    CASE r.e = "kick" -> [m EXCEPT !.expectSpawn = m.t + m.delay]
      [] r.e = "change" ->
            [m EXCEPT !.kinds = (r.id :> r.a) @@ @,
                      !.lastChange = IF r.a \in {"change", "empty"} THEN m.t ELSE @]
      [] r.e = "recv" -> IF r.id > 0 THEN [m EXCEPT !.unhandled = @ \cup {r.id}] ELSE m
      [] r.e = "handler_call" -> OnHandlerCall(m, r)
      [] r.e = "quit" ->
            LET m1 == IF ~m.quitDue THEN Bad(m, "the CLI quit although no interrupt or terminate arrived") ELSE m
                m2 == IF r.x # 1 THEN Bad(m1, "the first interrupt must lead to a graceful quit") ELSE m1
            IN  [m2 EXCEPT !.quitting = TRUE, !.quitDue = FALSE]
      [] r.e = "spawn" -> OnSpawn(m, r)
      [] r.e = "signal" -> OnSignal(m, r)
      [] r.e = "kill" -> OnKill(m, r)
      [] r.e = "wait_ret" -> OnEnd(m, r)
      [] r.e = "main_end" -> [OnFinal(m) EXCEPT !.ended = TRUE]
      [] r.e = "end" ->
            LET m1 == OnFinal(m)
                m2 == IF m1.postpone /\ m1.runs > 0 /\ m1.lastChange = -1
                      THEN Bad(m1, "postponed, yet a run happened without any change") ELSE m1
                m3 == IF m2.quitting /\ ~m2.ended THEN Bad(m2, "the main task did not end after the quit") ELSE m2
            IN  m3
      [] OTHER -> m

MonInit == l = 1 /\ M = InitM
MonNext == l <= Len(Rec) /\ l' = l + 1 /\ M' = Step(M, Rec[l])
MonSpec == MonInit /\ [][MonNext]_<<l, M>>

MonC05 == M.bad = {}

MonDone ==
    LET d == TLCGet("stats").diameter IN
    IF d - 1 = Len(Rec) THEN TRUE
    ELSE /\ PrintT(<<"TRACE-REJECTED at line", d, Rec[d]>>) /\ FALSE
=============================================================================
