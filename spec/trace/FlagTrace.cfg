SPECIFICATION TraceSpec
CONSTANTS
  Tasks = {1, 2, 3, 4}
  Raisers = {101, 102}
  Recheck = TRUE
  Slots = 0
  Spurious = TRUE
INVARIANT TraceNoLostWakeup
POSTCONDITION TraceAccepted
CHECK_DEADLOCK FALSE
