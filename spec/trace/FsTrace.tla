------------------------------- MODULE FsTrace -------------------------------
(***************************************************************************)
(* Trace validation for C13: a recorded run of the real filesystem worker  *)
(* against a fake notify watcher (harness/src/bin/fs_driver.rs) must be a  *)
(* behaviour of FsWorker, and when the script is over the worker must be   *)
(* idle with the watcher converged to the configuration.                   *)
(***************************************************************************)
EXTENDS FsWorker, Json, IOUtils

Rec == ndJsonDeserialize(IOEnv.TRACE)

VARIABLES l, oi, errSeen

tvars == <<fvars, l, oi, errSeen>>

OutDone == oi = Len(F.out)
Match(r, x) == r.e = x.e /\ r.a = x.a /\ r.b = x.b /\ r.x = x.x /\ r.n = x.n
ToSet(s) == {s[i] : i \in DOMAIN s}

TraceInit ==
    /\ l = 1 /\ oi = 0 /\ errSeen = 0
    /\ cfgPaths = {} /\ cfgKind = "native" /\ ver = 0 /\ failWatch = {} /\ failUnwatch = {}
    /\ F = InitF /\ errs = <<>>

TReset ==
    LET r == Rec[l] IN
    /\ r.e = "reset"
    /\ cfgPaths' = ToSet(r.kids) /\ cfgKind' = "native" /\ ver' = 0
    /\ failWatch' = ToSet(r.fw) /\ failUnwatch' = ToSet(r.fu)
    /\ F' = InitF /\ errs' = <<>> /\ oi' = 0 /\ errSeen' = 0

TCfg ==
    LET r == Rec[l] IN
    /\ r.e = "cfg"
    /\ CASE r.a = "paths" -> SetPaths(ToSet(r.kids))
         [] r.a = "kind"  -> SetKind(r.b)
         [] r.a = "other" -> OtherChange
    /\ UNCHANGED <<oi, errSeen>>

TStep ==
    LET r == Rec[l] IN
    /\ OutDone
    /\ WorkerStep
    /\ Len(F'.out) > 0
    /\ Match(r, F'.out[1])
    /\ oi' = 1
    /\ UNCHANGED errSeen

TConsume ==
    LET r == Rec[l] IN
    /\ ~OutDone
    /\ Match(r, F.out[oi + 1])
    /\ oi' = oi + 1
    /\ UNCHANGED <<fvars, errSeen>>

\* the errors channel delivers, in order, exactly the failures the spec has recorded
TError ==
    LET r == Rec[l] IN
    /\ r.e = "error"
    /\ errSeen < Len(errs)
    /\ errs[errSeen + 1].op = r.a
    /\ LET p == errs[errSeen + 1].path IN r.b = p \/ r.b \o "!" = p
    /\ errSeen' = errSeen + 1
    /\ UNCHANGED <<fvars, oi>>

\* the driver saw the worker quiet before making its next change
TIdle ==
    /\ Rec[l].e = "idle"
    /\ OutDone /\ WorkerIdle
    /\ UNCHANGED <<fvars, oi, errSeen>>

TEnd ==
    LET r == Rec[l] IN
    /\ r.e = "end"
    /\ OutDone
    /\ WorkerIdle
    /\ Converged
    /\ errSeen = Len(errs)
    /\ r.a = (IF F.watcher.on THEN F.watcher.kind ELSE "none")
    /\ ToSet(r.kids) = F.watcher.reg
    /\ UNCHANGED <<fvars, oi, errSeen>>

TraceNext ==
    /\ l <= Len(Rec)
    /\ l' = l + 1
    /\ (TReset \/ TCfg \/ TStep \/ TConsume \/ TError \/ TIdle \/ TEnd)

TraceSpec == TraceInit /\ [][TraceNext]_tvars
TraceView == <<l, oi, errSeen, cfgPaths, cfgKind, ver, F>>

TraceAccepted ==
    LET d == TLCGet("stats").diameter IN
    IF d - 1 = Len(Rec) THEN TRUE
    ELSE /\ PrintT(<<"TRACE-REJECTED at line", d, Rec[d]>>) /\ FALSE
=============================================================================
