------------------------------- MODULE FsTrace -------------------------------
(***************************************************************************)
(* Trace validation for C13: a recorded run of the real filesystem worker  *)
(* against a fake notify watcher (harness/src/bin/fs_driver.rs) must be a  *)
(* behaviour of FsWorker, and when the script is over the worker must be   *)
(* idle with the watcher converged to the configuration.                   *)
(***************************************************************************)
EXTENDS FsWorker, Json, IOUtils

Rec == ndJsonDeserialize(IOEnv.TRACE)

VARIABLES l, oi, errSeen,
          evcap,      \* capacity of the event queue
          pendOut     \* events the last callback burst must have put in the queue

tvars == <<fvars, l, oi, errSeen, evcap, pendOut>>

OutDone == oi = Len(F.out)
Match(r, x) == r.e = x.e /\ r.a = x.a /\ r.b = x.b /\ r.x = x.x /\ r.n = x.n
ToSet(s) == {s[i] : i \in DOMAIN s}

TraceInit ==
    /\ l = 1 /\ oi = 0 /\ errSeen = 0 /\ evcap = 1 /\ pendOut = -1
    /\ cfgPaths = {} /\ cfgKind = "native" /\ ver = 0 /\ failWatch = {} /\ failUnwatch = {}
    /\ F = InitF /\ errs = <<>>

TReset ==
    LET r == Rec[l] IN
    /\ r.e = "reset"
    /\ cfgPaths' = ToSet(r.kids) /\ cfgKind' = "native" /\ ver' = 0
    /\ failWatch' = ToSet(r.fw) /\ failUnwatch' = ToSet(r.fu)
    /\ F' = InitF /\ errs' = <<>> /\ oi' = 0 /\ errSeen' = 0 /\ evcap' = r.x /\ pendOut' = -1

TCfg ==
    LET r == Rec[l] IN
    /\ r.e = "cfg"
    /\ CASE r.a = "paths" -> SetPaths(ToSet(r.kids))
         [] r.a = "kind"  -> SetKind(r.b)
         [] r.a = "other" -> OtherChange
    /\ UNCHANGED <<oi, errSeen, evcap, pendOut>>

TStep ==
    LET r == Rec[l] IN
    /\ OutDone
    /\ WorkerStep
    /\ Len(F'.out) > 0
    /\ Match(r, F'.out[1])
    /\ oi' = 1
    /\ UNCHANGED <<errSeen, evcap, pendOut>>

TConsume ==
    LET r == Rec[l] IN
    /\ ~OutDone
    /\ Match(r, F.out[oi + 1])
    /\ oi' = oi + 1
    /\ UNCHANGED <<fvars, errSeen, evcap, pendOut>>

\* the errors channel delivers, in order, exactly the failures the spec has recorded
TError ==
    LET r == Rec[l] IN
    /\ r.e = "error"
    /\ errSeen < Len(errs)
    /\ errs[errSeen + 1].op = r.a
    /\ LET p == errs[errSeen + 1].path IN r.b = p \/ r.b \o "!" = p
    /\ errSeen' = errSeen + 1
    /\ UNCHANGED <<fvars, oi, evcap, pendOut>>

\* the driver saw the worker quiet before making its next change
TIdle ==
    /\ Rec[l].e = "idle"
    /\ OutDone /\ WorkerIdle
    /\ UNCHANGED <<fvars, oi, errSeen, evcap, pendOut>>

TEnd ==
    LET r == Rec[l] IN
    /\ r.e = "end"
    /\ OutDone
    /\ WorkerIdle
    /\ Converged
    /\ errSeen = Len(errs)
    /\ r.a = (IF F.watcher.on THEN F.watcher.kind ELSE "none")
    /\ ToSet(r.kids) = F.watcher.reg
    /\ pendOut = -1
    /\ UNCHANGED <<fvars, oi, errSeen, evcap, pendOut>>

\* the watcher's callback fires k events and e errors (only a live watcher has a callback)
TEmit ==
    LET r == Rec[l]
        k == IF F.watcher.on THEN r.x ELSE 0
        e == IF F.watcher.on THEN r.n ELSE 0
    IN
    /\ r.e = "emit" /\ OutDone /\ pendOut = -1
    /\ CallbackBurst(k, e, evcap)
    /\ pendOut' = IF k < evcap THEN k ELSE evcap
    /\ UNCHANGED <<oi, errSeen, evcap>>

\* what reached the event queue: as many events as fit, each of the documented shape
TEventOut ==
    LET r == Rec[l] IN
    /\ r.e = "event_out" /\ pendOut >= 0
    /\ r.x = pendOut /\ r.a = "ok"
    /\ pendOut' = -1
    /\ UNCHANGED <<fvars, oi, errSeen, evcap>>

TraceNext ==
    /\ l <= Len(Rec)
    /\ l' = l + 1
    /\ (TReset \/ TCfg \/ TStep \/ TConsume \/ TError \/ TIdle \/ TEmit \/ TEventOut \/ TEnd)

TraceSpec == TraceInit /\ [][TraceNext]_tvars
TraceView == <<l, oi, errSeen, pendOut, cfgPaths, cfgKind, ver, F>>

TraceAccepted ==
    LET d == TLCGet("stats").diameter IN
    IF d - 1 = Len(Rec) THEN TRUE
    ELSE /\ PrintT(<<"TRACE-REJECTED at line", d, Rec[d]>>) /\ FALSE
=============================================================================
