SPECIFICATION TSpec
CONSTANTS
  Modes = {"do-nothing", "queue", "restart", "signal"}
  Postpones = {TRUE, FALSE}
  Ds = {0}
  Gs = {0}
  Delays = {0}
  MaxChanges = 1000000
  MaxTime = 2000000000
  WaiterAtomic = TRUE
  Inf = 2000000000
  Classes <- KidClasses
CONSTRAINT Progress
POSTCONDITION MonDone
CHECK_DEADLOCK FALSE
