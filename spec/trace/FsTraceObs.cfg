SPECIFICATION TraceSpec
CONSTANTS
  Paths = {"a", "a!", "b", "c"}
  Kinds = {"native", "poll", "poll2"}
  Fixes <- AllFsFixes
  Tracing = TRUE
CONSTRAINT Progress
POSTCONDITION TraceAccepted
CHECK_DEADLOCK FALSE
