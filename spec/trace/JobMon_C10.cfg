SPECIFICATION MonSpec
INVARIANT MonC10
POSTCONDITION MonDone
CHECK_DEADLOCK FALSE
