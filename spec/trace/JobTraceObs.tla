----------------------------- MODULE JobTraceObs -----------------------------
(***************************************************************************)
(* The same question as JobTrace - is the recorded run of the real job     *)
(* task a behaviour of JobTask? - asked of what can be observed from       *)
(* outside only: the calls on the child (spawn, signal, kill, the exit     *)
(* status collected, the handle dropped), the spawn hook, the error        *)
(* handler, the functions run inside the task with the state they see,     *)
(* the driver's own lines (controls sent, tickets resolved, the task's     *)
(* end).  The trace points inside the task (control dequeued, wait result, *)
(* timer fired, flag raised, loop exit) are hints: JobTrace uses them to   *)
(* follow the loop step by step in linear time; here they are neither      *)
(* required nor believed, and the steps of the specification that show     *)
(* nothing else are taken silently.  Time is as exact as there.            *)
(*                                                                         *)
(* A run that JobTrace rejects is put to this specification before it is   *)
(* reported.  Acceptance is the furthest line reached (a TLC register;     *)
(* -workers 1).                                                            *)
(***************************************************************************)
EXTENDS JobTask, Json, IOUtils

Rec == ndJsonDeserialize(IOEnv.TRACE)

VARIABLES l, oi, waiters, woken, endSeen

tvars == <<vars, l, oi, waiters, woken, endSeen>>

Hints == {"deq", "waited", "timer_fired", "raise", "loop_exit"}
Vis(out) == SelectSeq(out, LAMBDA x : x.e \notin Hints)

R == Rec[l]
More == l <= Len(Rec)
Consume == l' = l + 1

Match(r, x) ==
    /\ r.e = x.e /\ r.id = x.id /\ r.n = x.n /\ r.a = x.a /\ r.b = x.b /\ r.x = x.x

OutDone == oi = Len(Vis(S.out))

Resolved(id) == id \in S.raised \/ id \in cancelled \/ S.gone

AllWoken == \A id \in sent : Resolved(id) => woken[id] = waiters[id]

AtRest == OutDone /\ ~TaskEnabled(now) /\ AllWoken

TimeOK(t) == t = now \/ (t > now /\ AtRest /\ t <= NextDeadline)

KidsFrom(ks) ==
    [i \in 1..Len(ks) |->
        [selfAt |-> ks[i].self_at, sigd |-> ks[i].sig_delay, fail |-> ks[i].fail,
         killFail |-> ks[i].kill_fail, sigFail |-> ks[i].sig_fail, code |-> ks[i].code]]

TraceInit ==
    /\ TLCSet(1, 0)
    /\ l = 1 /\ oi = 0
    /\ now = 0 /\ qU = <<>> /\ qH = <<>> /\ qN = <<>> /\ closed = FALSE /\ parked = FALSE
    /\ kids = <<>> /\ S = InitS /\ sent = {} /\ cancelled = {} /\ nextSn = 1 /\ viol = {}
    /\ waiters = <<>> /\ woken = <<>> /\ endSeen = FALSE

TReset ==
    /\ More /\ R.e = "reset"
    /\ now' = 0 /\ qU' = <<>> /\ qH' = <<>> /\ qN' = <<>> /\ closed' = FALSE /\ parked' = FALSE
    /\ kids' = KidsFrom(R.kids)
    /\ S' = InitS /\ sent' = {} /\ cancelled' = {} /\ nextSn' = 1 /\ viol' = {}
    /\ waiters' = <<>> /\ woken' = <<>> /\ endSeen' = FALSE /\ oi' = 0
    /\ Consume

TSend ==
    /\ More /\ R.e = "send"
    /\ TimeOK(R.t) /\ now' = R.t
    /\ IF R.a = "drop_handle" THEN
            /\ IF closed
               THEN UNCHANGED <<qU, qH, qN, closed, parked, kids, S, sent, cancelled, nextSn, viol>>
               ELSE DropHandle
            /\ UNCHANGED <<waiters, woken>>
       ELSE IF R.n = 0 THEN
            /\ UNCHANGED <<qU, qH, qN, closed, parked, kids, S, sent, cancelled, nextSn, viol>>
            /\ UNCHANGED <<waiters, woken>>
       ELSE /\ Send(R.a, R.id, SigNum(R.b), R.x, R.x)
            /\ waiters' = (R.id :> R.w) @@ waiters
            /\ woken' = (R.id :> 0) @@ woken
    /\ Consume /\ UNCHANGED <<oi, endSeen>>

JStep(t) ==
    \/ WaitStep(t)
    \/ AsyncDoneStep(t)
    \/ \E src \in {"T", "U", "H", "N", "X"} : RecvStep(src, t)

\* a task step that shows: its first visible observation is the current line
TStep ==
    /\ More /\ OutDone
    /\ TimeOK(R.t)
    /\ JStep(R.t)
    /\ Vis(S'.out) # <<>>
    /\ Match(R, Vis(S'.out)[1])
    /\ oi' = 1
    /\ Consume /\ UNCHANGED <<waiters, woken, endSeen>>

\* a task step that shows nothing (a control that finds nothing to do, a flag raised, ...): now
TSilent ==
    /\ More /\ R.e # "reset" /\ OutDone
    /\ JStep(now)
    /\ Vis(S'.out) = <<>>
    /\ oi' = 0
    /\ UNCHANGED <<l, waiters, woken, endSeen>>

\* the clock moves to the next deadline of the specification on the way to the next line
TAdvance ==
    /\ More /\ R.e # "reset"
    /\ AtRest /\ NextDeadline > now /\ NextDeadline <= R.t
    /\ now' = NextDeadline
    /\ UNCHANGED <<qU, qH, qN, closed, parked, kids, S, sent, cancelled, nextSn, viol, l, oi, waiters, woken, endSeen>>

TConsume ==
    /\ More /\ ~OutDone
    /\ R.t = now
    /\ Match(R, Vis(S.out)[oi + 1])
    /\ oi' = oi + 1
    /\ Consume /\ UNCHANGED <<vars, waiters, woken, endSeen>>

\* a trace point: says nothing here
THint ==
    /\ More /\ R.e \in Hints
    /\ Consume /\ UNCHANGED <<vars, oi, waiters, woken, endSeen>>

TResolved ==
    /\ More /\ R.e = "resolved"
    /\ R.t = now
    /\ R.id \in sent
    /\ Resolved(R.id)
    /\ woken[R.id] < waiters[R.id]
    /\ woken' = [woken EXCEPT ![R.id] = @ + 1]
    /\ Consume /\ UNCHANGED <<vars, oi, waiters, endSeen>>

TTaskEnd ==
    /\ More /\ R.e = "task_end"
    /\ R.t = now
    /\ R.a = "ok"
    /\ S.task = "ended"
    /\ ~endSeen
    /\ endSeen' = TRUE
    /\ Consume /\ UNCHANGED <<vars, oi, waiters, woken>>

RangeOf(f) == {f[i] : i \in DOMAIN f}

TEnd ==
    /\ More /\ R.e = "end"
    /\ TimeOK(R.t) /\ now' = R.t
    /\ AtRest
    /\ NextDeadline >= R.t
    /\ RangeOf(R.pending) = {id \in sent : ~Resolved(id)}
    /\ S.task = "ended" => endSeen
    /\ S.task # "panicked"
    /\ Consume
    /\ UNCHANGED <<qU, qH, qN, closed, parked, kids, S, sent, cancelled, nextSn, viol>>
    /\ UNCHANGED <<oi, waiters, woken, endSeen>>

TraceNext == TReset \/ TSend \/ TStep \/ TSilent \/ TAdvance \/ TConsume \/ THint \/ TResolved \/ TTaskEnd \/ TEnd

TraceSpec == TraceInit /\ [][TraceNext]_tvars

TraceView == <<l, oi, now, qU, qH, qN, closed, kids, S, sent, cancelled, woken, endSeen>>

Progress == TLCSet(1, IF l > TLCGet(1) THEN l ELSE TLCGet(1))

TraceAccepted ==
    LET d == TLCGet(1) IN
    IF d = Len(Rec) + 1 THEN TRUE
    ELSE /\ PrintT(<<"TRACE-REJECTED at line", d, Rec[d]>>) /\ FALSE
=============================================================================
