SPECIFICATION TraceSpec
CONSTANTS
  Inf = 2000000000
  Tracing = TRUE
  Timed = FALSE
  CheckErrors = TRUE
VIEW TraceView
CONSTRAINT Progress
POSTCONDITION TraceAccepted
CHECK_DEADLOCK FALSE
