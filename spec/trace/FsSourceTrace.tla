---------------------------- MODULE FsSourceTrace ----------------------------
(***************************************************************************)
(* C01 for real filesystem operations: what the filesystem source and the  *)
(* action worker owe the handler, at the level of paths.                   *)
(*                                                                         *)
(* A scenario is a sequence of file operations in and next to a watched    *)
(* tree (fsreal_driver; native or poll watcher) - and of signals sent to   *)
(* the program and of the keyboard source reaching end-of-file, which are  *)
(* "operations" on the pseudo paths signal/<NAME> and keyboard/eof -, the  *)
(* events the sources made for them (numbered where they enter the queue), the verdict the    *)
(* filter gave each, and the batches the handler saw.  Required:           *)
(*   - events are numbered without gaps and none is lost on the way;       *)
(*   - an event only names paths inside the watched tree (the watcher may  *)
(*     report directories it opens while registering, so a path need not   *)
(*     have been touched by an operation);                                 *)
(*   - the filter's verdict is the one the naming rule gives (the class of *)
(*     each named path is logged with it and must agree with the class of  *)
(*     the operation that touched that path);                              *)
(*   - a batch is never empty and holds only accepted events, each at most *)
(*     once over the whole run;                                            *)
(*   - at the end every accepted event has been in a batch (exactly once), *)
(*     and every successful operation inside the tree is named by at least *)
(*     one event (for the poll watcher: except plain rewrites, which it    *)
(*     only sees when the modification time changes).                      *)
(* That the worker's own steps are those of ActionWorker is checked on the *)
(* same runs by WorkerTrace.                                               *)
(***************************************************************************)
EXTENDS Integers, Sequences, FiniteSets, TLC, Json, IOUtils

Rec == ndJsonDeserialize(IOEnv.TRACE)

VARIABLES l, kind, ops, evs, delivered

IsPrefix(a, b) == Len(a) <= Len(b) /\ SubSeq(b, 1, Len(a)) = a
Range(f) == {f[i] : i \in DOMAIN f}

\* paths touched so far, with their class (0 accepted, 1 rejected, 2 error)
Touched == {o.path : o \in Range(ops)}
ClassOf(p) ==
    LET cs == {o.cls : o \in {o \in Range(ops) : o.path = p}} IN
    IF cs = {} THEN 0                \* a directory above a touched path
    ELSE CHOOSE c \in cs : \A d \in cs : c >= d
\* inside the watched tree - or one of the other sources: a signal sent to the program, keyboard end-of-file
Inside(p) == Len(p) >= 1 /\ p[1] \in {"root", "signal", "keyboard"}

VerdictOf(cs) == IF 2 \in cs THEN "error" ELSE IF 1 \in cs THEN "reject" ELSE "pass"

TraceInit == l = 1 /\ kind = "" /\ ops = <<>> /\ evs = <<>> /\ delivered = {}

TReset ==
    LET r == Rec[l] IN
    /\ r.e = "reset"
    /\ kind' = r.b /\ ops' = <<>> /\ evs' = <<>> /\ delivered' = {}

TOp ==
    LET r == Rec[l] IN
    /\ r.e \in {"op", "op_to"}
    /\ ops' = Append(ops, [n |-> r.n, op |-> IF r.e = "op" THEN r.a ELSE "rename_to", path |-> r.kids,
                           cls |-> r.w, ok |-> IF r.e = "op" THEN r.x = 1 ELSE TRUE])
    /\ UNCHANGED <<kind, evs, delivered>>

TFsev ==
    LET r == Rec[l]
        named == Range(r.kids)              \* records [p |-> components, c |-> class]
        paths == {k.p : k \in named}
    IN  /\ r.e = "fsev"
        /\ r.id = Len(evs) + 1                                  \* numbered without gaps
        /\ (\A k \in named : Inside(k.p) /\ (k.p \in Touched => k.c = ClassOf(k.p))) = TRUE
        /\ r.a = VerdictOf({k.c : k \in named})
        /\ evs' = Append(evs, [verdict |-> r.a, paths |-> paths])
        /\ UNCHANGED <<kind, ops, delivered>>

TBatch ==
    LET r == Rec[l]
        ids == Range(r.pending)
    IN  /\ r.e = "batch"
        /\ Len(r.pending) > 0 /\ Cardinality(ids) = Len(r.pending)
        /\ (\A i \in ids : i \in DOMAIN evs /\ evs[i].verdict = "pass" /\ i \notin delivered) = TRUE
        /\ delivered' = delivered \cup ids
        /\ UNCHANGED <<kind, ops, evs>>

\* (a `lost` or `source_error` line has no counterpart)
Named(p) == \E i \in DOMAIN evs : p \in evs[i].paths
MustBeSeen(o) ==
    /\ o.ok /\ Inside(o.path)
    /\ kind = "poll" => o.op # "write"
    \* the old name of a rename, or a path that came and went, is gone: one of the two names is enough
    /\ o.op \notin {"rename", "rename_to"}
RenameSeen(n) == \E o \in Range(ops) : o.n = n /\ Named(o.path)

EndOK ==
    /\ \A i \in DOMAIN evs : evs[i].verdict = "pass" => i \in delivered
    /\ \A o \in Range(ops) : MustBeSeen(o) => Named(o.path)
    /\ \A o \in Range(ops) : (o.op = "rename" /\ o.ok /\ Inside(o.path)) => RenameSeen(o.n)

TEnd ==
    /\ Rec[l].e = "end"
    /\ EndOK = TRUE          \* (evaluated as a value: TLC need not enumerate witnesses)
    /\ UNCHANGED <<kind, ops, evs, delivered>>

TraceNext ==
    /\ l <= Len(Rec) /\ l' = l + 1
    /\ (TReset \/ TOp \/ TFsev \/ TBatch \/ TEnd)
TraceSpec == TraceInit /\ [][TraceNext]_<<l, kind, ops, evs, delivered>>

TraceAccepted ==
    LET d == TLCGet("stats").diameter IN
    IF d - 1 = Len(Rec) THEN TRUE
    ELSE /\ PrintT(<<"TRACE-REJECTED at line", d, Rec[d]>>) /\ FALSE
=============================================================================
