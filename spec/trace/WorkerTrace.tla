----------------------------- MODULE WorkerTrace -----------------------------
(***************************************************************************)
(* Trace validation for the action-worker family: is a recorded execution  *)
(* of a real Watchexec instance (harness/src/bin/worker_driver.rs) a       *)
(* behaviour of ActionWorker?                                              *)
(*                                                                         *)
(* Timed = TRUE  (C02): the debounce arithmetic must be exactly the        *)
(*     spec's: time only advances when nothing is enabled and never past a *)
(*     deadline; a batch is returned exactly when the window says so.      *)
(* Timed = FALSE (C01, C15): only the data flow is judged - which event is *)
(*     taken, which verdict it gets, what ends up in which batch, which    *)
(*     errors reach the error handler; when a batch is cut is left open.   *)
(* CheckErrors = FALSE: calls of the error handler are not judged (C01,    *)
(*     C02); TRUE (C15): each must be the spec's next step of the hook.    *)
(***************************************************************************)
EXTENDS ActionWorker, Json, IOUtils

CONSTANTS Timed, CheckErrors

Rec == ndJsonDeserialize(IOEnv.TRACE)

VARIABLES l, oi, mainSeen

tvars == <<wvars, l, oi, mainSeen>>

OutDone == oi = Len(W.out)

Match(r, x) ==
    /\ r.e = x.e /\ r.id = x.id /\ r.a = x.a /\ r.x = x.x
    /\ x.e = "handler_in" => r.pending = x.ids

Choices == IF Timed THEN {"auto"} ELSE {"wait", "enter"}

AtRest == OutDone /\ ~AnyEnabled(now)
TimeOK(t) == IF Timed THEN t = now \/ (t > now /\ AtRest /\ t <= NextDeadline) ELSE t >= now

EvsFrom(ks) ==
    [i \in {ks[j].id : j \in DOMAIN ks} |->
        LET k == CHOOSE k \in {ks[j] : j \in DOMAIN ks} : k.id = i
        IN  [prio |-> k.prio, verdict |-> k.verdict, empty |-> k.empty, hold |-> k.hold,
             act |-> k.act, arg |-> k.arg, onerr |-> k.onerr,
             errhold |-> IF "errhold" \in DOMAIN k THEN k.errhold ELSE 0]]

TraceInit ==
    /\ l = 1 /\ oi = 0 /\ mainSeen = FALSE
    /\ now = 0 /\ evs = <<>> /\ cap = 1 /\ ecap = 1 /\ queue = {} /\ pending = {} /\ errq = <<>>
    /\ W = InitW(0) /\ main = "run" /\ hist = InitHist

TReset ==
    LET r == Rec[l] IN
    /\ r.e = "reset"
    /\ now' = 0 /\ evs' = EvsFrom(r.kids) /\ cap' = r.n /\ ecap' = r.w
    /\ queue' = {} /\ pending' = {} /\ errq' = <<>>
    /\ W' = InitW(r.x) /\ main' = "run" /\ hist' = InitHist
    /\ oi' = 0 /\ mainSeen' = FALSE

TSend ==
    LET r == Rec[l] IN
    /\ r.e = "send" /\ TimeOK(r.t) /\ now' = r.t
    /\ SendStart(r.id)
    /\ UNCHANGED <<oi, mainSeen>>

TSent ==
    LET r == Rec[l] IN
    /\ r.e = "sent" /\ TimeOK(r.t) /\ now' = r.t
    /\ SendComplete(r.id)
    /\ UNCHANGED <<oi, mainSeen>>

TSendErr ==
    LET r == Rec[l] IN
    /\ r.e = "send_err" /\ TimeOK(r.t) /\ now' = r.t
    /\ SendFail(r.id)
    /\ UNCHANGED <<oi, mainSeen>>

\* a step of the worker or of the error hook whose first observation is the current line
TStep ==
    LET r == Rec[l] IN
    /\ OutDone
    /\ TimeOK(r.t)
    /\ \/ \E c \in Choices : \E e \in queue : RecvStep(e, r.t, c)
       \/ \E c \in Choices : ErrSendComplete(r.t, c)
       \/ \E c \in Choices : TimeoutStep(r.t, c)
       \/ HandlerReturn(r.t)
    /\ Len(W'.out) > 0
    /\ Match(r, W'.out[1])
    /\ oi' = 1
    /\ UNCHANGED mainSeen

\* (on a real clock - the real-filesystem tier, untimed - the observations of one step may be a
\* millisecond apart)
TConsume ==
    LET r == Rec[l] IN
    /\ ~OutDone
    /\ IF Timed THEN r.t = now ELSE r.t >= now
    /\ now' = r.t
    /\ Match(r, W.out[oi + 1])
    /\ oi' = oi + 1
    /\ UNCHANGED <<evs, cap, ecap, queue, pending, errq, W, main, hist, mainSeen>>

\* The error hook's two observations (err_recv: it has received the next error; error: the handler is
\* called with it).  The hook is a task of its own: they may fall between the observations of a worker step.
\* Judged (C15): they must be the spec's ErrHookTake / ErrHookCall.
THookTake ==
    LET r == Rec[l] IN
    /\ CheckErrors
    /\ r.e = "err_recv" /\ r.t >= now
    /\ ErrHookTake(r.t)
    /\ UNCHANGED <<oi, mainSeen>>

THookCall ==
    LET r == Rec[l] IN
    /\ CheckErrors
    /\ r.e = "error" /\ r.t >= now
    /\ W.hookCur # 0
    /\ LET x == HookObs(W.hookCur) IN r.id = x.id /\ r.a = x.a /\ r.n = x.n
    /\ ErrHookCall(r.t)
    /\ UNCHANGED <<oi, mainSeen>>

\* Not judged (C01, C02): consumed, and the spec's error channel follows suit
TErrorFree ==
    LET r == Rec[l] IN
    /\ ~CheckErrors
    /\ r.e \in {"err_recv", "error"} /\ r.t >= now
    /\ now' = r.t
    /\ main = "run"
    /\ errq' = IF r.e = "err_recv" /\ errq # <<>> THEN Tail(errq) ELSE errq     \* not judged here: C15 does that
    /\ main' = IF r.e = "error" /\ r.a \in {"elevate", "critical"} THEN "failing" ELSE "run"
    /\ UNCHANGED <<evs, cap, ecap, queue, pending, W, hist, oi, mainSeen>>

\* the embedding program changes the throttle (config.throttle()) from outside the handler
TThrottleEnv ==
    LET r == Rec[l] IN
    /\ r.e = "throttle" /\ OutDone
    /\ TimeOK(r.t) /\ now' = r.t
    /\ W' = [W EXCEPT !.throttle = r.x]
    /\ UNCHANGED <<evs, cap, ecap, queue, pending, errq, main, hist, oi, mainSeen>>

TMainEnd ==
    LET r == Rec[l] IN
    /\ r.e = "main_end" /\ r.t >= now /\ now' = r.t
    /\ OutDone
    /\ \/ main = "run" /\ W.pc = "ended" /\ r.a = "ok" /\ main' = "ok"
       \/ main = "failing" /\ r.a \in {"err:elevated", "err:external"} /\ main' = "err"
    /\ mainSeen' = TRUE
    /\ UNCHANGED <<evs, cap, ecap, queue, pending, errq, W, hist, oi>>

TEnd ==
    LET r == Rec[l] IN
    /\ r.e = "end" /\ TimeOK(r.t) /\ now' = r.t
    /\ OutDone
    /\ ~AnyEnabled(now)
    /\ main = "run" => (W.pc = "collect" /\ W.set = <<>>) \/ W.pc = "errsend"
    /\ main # "run" => (mainSeen /\ main # "failing")
    /\ UNCHANGED <<evs, cap, ecap, queue, pending, errq, W, main, hist, oi, mainSeen>>

TraceNext ==
    /\ l <= Len(Rec)
    /\ l' = l + 1
    /\ (TReset \/ TSend \/ TSent \/ TSendErr \/ TStep \/ TConsume \/ THookTake \/ THookCall \/ TErrorFree \/ TThrottleEnv \/ TMainEnd \/ TEnd)

TraceSpec == TraceInit /\ [][TraceNext]_tvars

TraceView == <<l, oi, now, queue, pending, errq, [W EXCEPT !.batches = <<>>], main, mainSeen>>

TraceAccepted ==
    LET d == TLCGet("stats").diameter IN
    IF d - 1 = Len(Rec) THEN TRUE
    ELSE /\ PrintT(<<"TRACE-REJECTED at line", d, Rec[d]>>)
         /\ FALSE
=============================================================================
