------------------------------- MODULE QuitMon -------------------------------
(***************************************************************************)
(* C08 on recorded executions of a real Watchexec with supervised jobs     *)
(* (worker_driver with job operations, simulated children, virtual time):  *)
(* after the handler asks for a quit the main task ends promptly (abort)   *)
(* or within the grace periods then in effect plus the quit's own          *)
(* (graceful), the quit is really performed, and no child survives.  A     *)
(* grace period is in effect from the moment its signal is sent until its  *)
(* process has ended; one whose process has ended early owes nothing.      *)
(***************************************************************************)
EXTENDS Integers, Sequences, FiniteSets, TLC, Json, IOUtils

Rec == ndJsonDeserialize(IOEnv.TRACE)

VARIABLES l, M

Graceful == {"stop_with_signal", "restart_with_signal", "try_restart_with_signal"}

InitM == [ t |-> 0,
           alive |-> {},        \* children spawned and neither reaped nor dropped
           gr |-> <<>>,         \* per job: [until |-> when the armed grace timer runs out (-1: none),
                                \*           queued |-> grace periods of graceful operations waiting behind it]
           asked |-> -1, manner |-> 0, grace |-> 0, bound |-> 0,
           performed |-> FALSE, mainEnd |-> -1,
           bad |-> {} ]

Bad(m, why) == [m EXCEPT !.bad = @ \cup {why}]

JobOf(n) == n \div 100
Max0(S) == IF S = {} THEN 0 ELSE CHOOSE x \in S : \A y \in S : y <= x
NoGrace == [until |-> -1, queued |-> <<>>]
GraceOf(m, j) == IF j \in DOMAIN m.gr THEN m.gr[j] ELSE NoGrace
RECURSIVE SumSeq(_)
SumSeq(q) == IF q = <<>> THEN 0 ELSE Head(q) + SumSeq(Tail(q))
\* what job j may still take at time tq: the remainder of its armed timer and every grace period queued
\* behind it (an upper bound: a queued graceful operation that finds nothing running takes no time)
OwedBy(m, j, tq) ==
    LET g == GraceOf(m, j) IN (IF g.until > tq THEN g.until - tq ELSE 0) + SumSeq(g.queued)

\* a graceful operation on job j: it arms the timer now if the job has a live process and nothing is
\* pending before it; otherwise it waits (or will turn out to be a no-op)
OnGraceful(m, j, t, grace) ==
    LET g == GraceOf(m, j)
        live == \E n \in m.alive : JobOf(n) = j
        g2 == IF live /\ g.until < t /\ g.queued = <<>> THEN [g EXCEPT !.until = t + grace]
              ELSE [g EXCEPT !.queued = Append(@, grace)]
    IN  [m EXCEPT !.gr = (j :> g2) @@ @]

\* the process of job j has ended: the grace period that was running is over, the next one (if any)
\* starts now at the latest
OnProcessEnd(m, j, t) ==
    LET g == GraceOf(m, j)
        g2 == IF g.queued = <<>> THEN [g EXCEPT !.until = -1]
              ELSE [until |-> t + Head(g.queued), queued |-> Tail(g.queued)]
    IN  [m EXCEPT !.gr = (j :> g2) @@ @]

Step(m0, r) ==
    IF r.e = "reset" THEN InitM
    ELSE
    LET m == [m0 EXCEPT !.t = r.t] IN
    CASE r.e = "jobop" ->
            IF r.a \in Graceful THEN OnGraceful(m, r.n, r.t, r.x) ELSE m
      [] r.e = "ask_quit" ->
            IF m.asked >= 0 THEN m
            ELSE LET extra == Max0({OwedBy(m, j, r.t) : j \in DOMAIN m.gr})
                 IN  [m EXCEPT !.asked = r.t, !.manner = r.x, !.grace = r.n,
                               !.bound = IF r.x = 0 THEN r.t ELSE r.t + extra + r.n]
      [] r.e = "quit" ->
            IF m.asked < 0 THEN Bad(m, "the worker quit although the handler did not ask for it")
            ELSE IF r.x # m.manner THEN Bad(m, "the worker quit in another manner than asked")
            ELSE [m EXCEPT !.performed = TRUE]
      [] r.e = "spawn" ->
            LET m1 == [m EXCEPT !.alive = @ \cup {r.n}] IN
            IF m.mainEnd >= 0 THEN Bad(m1, "a process was spawned after the main task had ended") ELSE m1
      [] r.e \in {"wait_ret", "drop"} ->
            IF r.n \in m.alive THEN [OnProcessEnd(m, JobOf(r.n), r.t) EXCEPT !.alive = @ \ {r.n}] ELSE m
      [] r.e = "main_end" ->
            LET m1 == [m EXCEPT !.mainEnd = r.t] IN
            IF m.asked < 0 THEN m1
            ELSE IF m.manner = 0 /\ r.t > m.asked
                 THEN Bad(m1, "abort: the main task did not end in the instant of the quit")
            ELSE IF m.manner = 1 /\ r.t > m.bound
                 THEN Bad(m1, "graceful quit: the main task ended after the grace periods in effect")
            ELSE m1
      [] r.e = "end" ->
            LET m1 == IF m.asked >= 0 /\ m.mainEnd < 0
                      THEN Bad(m, "the main task never ended after the quit") ELSE m
                m2 == IF m1.asked >= 0 /\ ~m1.performed
                      THEN Bad(m1, "the handler asked for a quit that the worker did not perform") ELSE m1
                m3 == IF m2.asked >= 0 /\ m2.alive # {}
                      THEN Bad(m2, "a supervised process survived the shutdown") ELSE m2
            IN  m3
      [] OTHER -> m

MonInit == l = 1 /\ M = InitM
MonNext == l <= Len(Rec) /\ l' = l + 1 /\ M' = Step(M, Rec[l])
MonSpec == MonInit /\ [][MonNext]_<<l, M>>

MonC08 == M.bad = {}

MonDone ==
    LET d == TLCGet("stats").diameter IN
    IF d - 1 = Len(Rec) THEN TRUE
    ELSE /\ PrintT(<<"TRACE-REJECTED at line", d, Rec[d]>>) /\ FALSE
=============================================================================
