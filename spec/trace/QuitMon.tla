------------------------------- MODULE QuitMon -------------------------------
(***************************************************************************)
(* C08 on recorded executions of a real Watchexec with supervised jobs     *)
(* (worker_driver with job operations, simulated children, virtual time):  *)
(* after the handler asks for a quit the main task ends promptly (abort)   *)
(* or within the grace periods then in effect plus the quit's own          *)
(* (graceful), the quit is really performed, and no child survives.        *)
(***************************************************************************)
EXTENDS Integers, Sequences, FiniteSets, TLC, Json, IOUtils

Rec == ndJsonDeserialize(IOEnv.TRACE)

VARIABLES l, M

Graceful == {"stop_with_signal", "restart_with_signal", "try_restart_with_signal"}

InitM == [ t |-> 0,
           alive |-> {},        \* children spawned and neither reaped nor dropped
           pend |-> <<>>,       \* graceful operations issued: [job, until]
           asked |-> -1, manner |-> 0, grace |-> 0, bound |-> 0,
           performed |-> FALSE, mainEnd |-> -1,
           bad |-> {} ]

Bad(m, why) == [m EXCEPT !.bad = @ \cup {why}]

JobOf(n) == n \div 100
Max0(S) == IF S = {} THEN 0 ELSE CHOOSE x \in S : \A y \in S : y <= x
SumFor(m, j, tq) ==
    LET idx == {i \in DOMAIN m.pend : m.pend[i].job = j /\ m.pend[i].until > tq}
        RECURSIVE Sum(_)
        Sum(S) == IF S = {} THEN 0
                  ELSE LET i == CHOOSE i \in S : TRUE IN (m.pend[i].until - tq) + Sum(S \ {i})
    IN  Sum(idx)

Step(m0, r) ==
    IF r.e = "reset" THEN InitM
    ELSE
    LET m == [m0 EXCEPT !.t = r.t] IN
    CASE r.e = "jobop" ->
            IF r.a \in Graceful
            THEN [m EXCEPT !.pend = Append(@, [job |-> r.n, until |-> r.t + r.x])]
            ELSE m
      [] r.e = "ask_quit" ->
            IF m.asked >= 0 THEN m
            ELSE LET jobs == {m.pend[i].job : i \in DOMAIN m.pend}
                     extra == Max0({SumFor(m, j, r.t) : j \in jobs})
                 IN  [m EXCEPT !.asked = r.t, !.manner = r.x, !.grace = r.n,
                               !.bound = IF r.x = 0 THEN r.t ELSE r.t + extra + r.n]
      [] r.e = "quit" ->
            IF m.asked < 0 THEN Bad(m, "the worker quit although the handler did not ask for it")
            ELSE IF r.x # m.manner THEN Bad(m, "the worker quit in another manner than asked")
            ELSE [m EXCEPT !.performed = TRUE]
      [] r.e = "spawn" ->
            LET m1 == [m EXCEPT !.alive = @ \cup {r.n}] IN
            IF m.mainEnd >= 0 THEN Bad(m1, "a process was spawned after the main task had ended") ELSE m1
      [] r.e = "wait_ret" -> [m EXCEPT !.alive = @ \ {r.n}]
      [] r.e = "drop" -> [m EXCEPT !.alive = @ \ {r.n}]
      [] r.e = "main_end" ->
            LET m1 == [m EXCEPT !.mainEnd = r.t] IN
            IF m.asked < 0 THEN m1
            ELSE IF m.manner = 0 /\ r.t > m.asked
                 THEN Bad(m1, "abort: the main task did not end in the instant of the quit")
            ELSE IF m.manner = 1 /\ r.t > m.bound
                 THEN Bad(m1, "graceful quit: the main task ended after the grace periods in effect")
            ELSE m1
      [] r.e = "end" ->
            LET m1 == IF m.asked >= 0 /\ m.mainEnd < 0
                      THEN Bad(m, "the main task never ended after the quit") ELSE m
                m2 == IF m1.asked >= 0 /\ ~m1.performed
                      THEN Bad(m1, "the handler asked for a quit that the worker did not perform") ELSE m1
                m3 == IF m2.asked >= 0 /\ m2.alive # {}
                      THEN Bad(m2, "a supervised process survived the shutdown") ELSE m2
            IN  m3
      [] OTHER -> m

MonInit == l = 1 /\ M = InitM
MonNext == l <= Len(Rec) /\ l' = l + 1 /\ M' = Step(M, Rec[l])
MonSpec == MonInit /\ [][MonNext]_<<l, M>>

MonC08 == M.bad = {}

MonDone ==
    LET d == TLCGet("stats").diameter IN
    IF d - 1 = Len(Rec) THEN TRUE
    ELSE /\ PrintT(<<"TRACE-REJECTED at line", d, Rec[d]>>) /\ FALSE
=============================================================================
