SPECIFICATION TraceSpec
CONSTANTS
  Inf = 2000000000
  Tracing = TRUE
  Timed = TRUE
  CheckErrors = FALSE
VIEW TraceView
CONSTRAINT Progress
POSTCONDITION TraceAccepted
CHECK_DEADLOCK FALSE
