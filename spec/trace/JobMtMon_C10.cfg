SPECIFICATION MonSpec
INVARIANT MonMtC10
POSTCONDITION MonDone
CHECK_DEADLOCK FALSE
