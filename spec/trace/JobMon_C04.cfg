SPECIFICATION MonSpec
INVARIANT MonC04
POSTCONDITION MonDone
CHECK_DEADLOCK FALSE
