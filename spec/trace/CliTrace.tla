------------------------------ MODULE CliTrace ------------------------------
(***************************************************************************)
(* Trace validation for CliBusy: is a recorded execution of the CLI's real *)
(* action logic (cli_driver: make_config on a real Watchexec, simulated    *)
(* commands, virtual time) a behaviour of the specification?               *)
(*                                                                         *)
(* The job / handler / waiter steps are CliBusy's own actions.  The        *)
(* debounce window is not judged here (that is C02's specification): a     *)
(* batch is what the recorded handler call says it is.  A step that shows  *)
(* (a spawn, a signal, a kill, a collected exit status) consumes its line; *)
(* the steps that do not show (a query that decides to do nothing, the     *)
(* --delay-run sleep being taken from the queue, a start while the command *)
(* runs, the waiter's bookkeeping) are taken silently between lines.  Time *)
(* comes from the trace and may only advance when nothing of the           *)
(* specification is due and no deadline lies in between - so "the fresh    *)
(* run starts in the instant the old one was collected", "the signal goes  *)
(* out --delay-run after the batch, behind the sleeps queued before it"    *)
(* are exact.  Once the handler has seen an interrupt / terminate the rest *)
(* of the run is the quit (CliMon and C08 judge it) and is not followed.   *)
(*                                                                         *)
(* Because of the silent steps acceptance is not the diameter but the      *)
(* furthest line reached (a TLC register; -workers 1).                     *)
(***************************************************************************)
EXTENDS CliBusy, Json, IOUtils

Rec == ndJsonDeserialize(IOEnv.TRACE)

VARIABLES l,          \* the next line
          pend,       \* ids of the events received by the worker and not yet handed to the handler
          kinds,      \* event id -> kind
          kidsCfg,    \* the simulated commands of this script, by spawn index
          sig,        \* the configured stop / on-busy signal
          phase       \* "run" | "quit"

tvars == <<cvars, l, pend, kinds, kidsCfg, sig, phase>>

\* the behaviour of the command that the next spawn starts (replaces CliBusy's Classes)
KidClasses == IF run.n + 1 \in DOMAIN kidsCfg THEN {kidsCfg[run.n + 1]} ELSE {}

R == Rec[l]
More == l <= Len(Rec)

Fresh(r) ==
    /\ Mode' = r.b /\ Postpone' = (r.w = 1) /\ Delay' = r.id /\ D' = r.x /\ G' = r.n
    /\ now' = 0 /\ sleepUntil' = -1
    /\ run' = NoRun /\ timer' = -1 /\ jobq' = <<>>
    /\ queued' = FALSE /\ waiter' = "none" /\ windowEnd' = -1 /\ changes' = 0
    /\ hist' = [lastChange |-> -1, lastSpawn |-> -1, spawns |-> 0, signals |-> 0, kills |-> 0, batches |-> 0]
    /\ pend' = {} /\ kinds' = (0 :> "kick") /\ kidsCfg' = <<>> /\ sig' = r.pending[1] /\ phase' = "run"

TInit ==
    /\ TLCSet(1, 0)
    /\ l = 1
    /\ Mode = "" /\ Postpone = FALSE /\ Delay = 0 /\ D = 0 /\ G = 0
    /\ now = 0 /\ sleepUntil = -1 /\ run = NoRun /\ timer = -1 /\ jobq = <<>>
    /\ queued = FALSE /\ waiter = "none" /\ windowEnd = -1 /\ changes = 0
    /\ hist = [lastChange |-> -1, lastSpawn |-> -1, spawns |-> 0, signals |-> 0, kills |-> 0, batches |-> 0]
    /\ pend = {} /\ kinds = (0 :> "kick") /\ kidsCfg = <<>> /\ sig = 15 /\ phase = "quit"

Keep == UNCHANGED <<pend, kinds, kidsCfg, sig, phase>>
Consume == l' = l + 1

TReset == More /\ R.e = "reset" /\ Fresh(R) /\ Consume

\* the next deadline of the specification after `now`
Deadlines == (IF run.alive /\ run.exitAt > now THEN {run.exitAt} ELSE {})
             \cup (IF timer > now THEN {timer} ELSE {})
             \cup (IF sleepUntil > now THEN {sleepUntil} ELSE {})

\* the clock moves towards the time of the next line: nothing is due now; it stops at every deadline on
\* the way (where, unless the job task sleeps through it, something becomes due and must show first)
TAdvance ==
    /\ More /\ R.e # "reset" /\ phase = "run" /\ R.t > now
    /\ ~Enabled0
    /\ LET stops == {R.t} \cup {d \in Deadlines : d < R.t} IN
       now' = CHOOSE t \in stops : \A u \in stops : t <= u
    /\ UNCHANGED <<run, timer, jobq, queued, waiter, windowEnd, changes, hist, sleepUntil, Mode, Postpone, Delay, D, G,
                   l, pend, kinds, kidsCfg, sig, phase>>

AtLine(e) == More /\ R.e = e /\ phase = "run" /\ R.t = now

JobUnchanged == UNCHANGED <<now, run, timer, jobq, queued, waiter, windowEnd, changes, hist, sleepUntil,
                            Mode, Postpone, Delay, D, G>>

TKid ==
    /\ AtLine("kid")
    /\ kidsCfg' = Append(kidsCfg, C(IF R.x < 0 THEN Inf ELSE R.x, IF R.w < 0 THEN Inf ELSE R.w))
    /\ Consume /\ JobUnchanged /\ UNCHANGED <<pend, kinds, sig, phase>>

TChangeLine ==
    /\ AtLine("change")
    /\ kinds' = (R.id :> R.a) @@ kinds
    /\ Consume /\ JobUnchanged /\ UNCHANGED <<pend, kidsCfg, sig, phase>>

TRecv ==
    /\ AtLine("recv")
    /\ pend' = pend \cup {R.id}
    /\ Consume /\ JobUnchanged /\ UNCHANGED <<kinds, kidsCfg, sig, phase>>

KindOf(id) == IF id \in DOMAIN kinds THEN kinds[id] ELSE "?"

\* the handler is called with everything received so far
THandler ==
    /\ AtLine("handler_call")
    /\ LET ks == {KindOf(id) : id \in pend} IN
       IF ks \cap {"INT", "TERM"} # {}
       THEN /\ phase' = "quit" /\ JobUnchanged
       ELSE /\ phase' = phase
            /\ jobq' = IF ks \cap {"change", "empty", "kick"} # {} THEN jobq \o Batch ELSE jobq
            /\ hist' = [hist EXCEPT !.batches = @ + 1]
            /\ UNCHANGED <<now, run, timer, queued, waiter, windowEnd, changes, sleepUntil, Mode, Postpone, Delay, D, G>>
    /\ pend' = {}
    /\ Consume /\ UNCHANGED <<kinds, kidsCfg, sig>>

\* --- the steps that show -------------------------------------------------
TSpawn ==
    /\ AtLine("spawn")
    /\ jobq # <<>> /\ Head(jobq) = "ST" /\ ~run.alive
    /\ JobStep
    /\ R.n = run'.n
    /\ R.n \in DOMAIN kidsCfg
    /\ run'.sigd = kidsCfg[R.n].sigd
    /\ run'.exitAt = (IF kidsCfg[R.n].self = Inf THEN Inf ELSE now + kidsCfg[R.n].self)
    /\ Consume /\ Keep

TSignal ==
    /\ AtLine("signal")
    /\ jobq # <<>> /\ Head(jobq) \in {"SG", "GS"} /\ run.alive
    /\ JobStep
    /\ hist'.signals = hist.signals + 1
    /\ R.n = run.n /\ R.x = sig
    /\ Consume /\ Keep

TKill ==
    /\ AtLine("kill")
    /\ R.n = run.n
    /\ TimerFire
    /\ Consume /\ Keep

\* the exit status of the run in progress is collected
TEnd ==
    /\ AtLine("wait_ret")
    /\ run.alive /\ R.n = run.n
    /\ ChildExit
    /\ Consume /\ Keep

\* lines that say nothing new: a status collected again (kill() collects it itself, then the task's own
\* wait() sees it), and whatever else the trace points report
TOther ==
    /\ More /\ phase = "run" /\ R.t = now
    /\ \/ R.e \notin {"reset", "kid", "change", "recv", "handler_call", "spawn", "signal", "kill", "wait_ret", "end"}
       \/ (R.e = "wait_ret" /\ ~(run.alive /\ R.n = run.n))
    /\ Consume /\ JobUnchanged /\ Keep

\* the end of the script: everything that was due has happened
TEndLine ==
    /\ AtLine("end")
    /\ ~Enabled0
    /\ Consume /\ JobUnchanged /\ Keep

\* after the handler has seen an interrupt / terminate: not followed
TQuitPhase ==
    /\ More /\ phase = "quit" /\ R.e # "reset"
    /\ Consume /\ JobUnchanged /\ Keep

\* --- the steps that do not show ------------------------------------------
Silent ==
    /\ phase = "run" /\ More /\ R.e # "reset"
    /\ \/ /\ jobq # <<>>
          /\ \/ Head(jobq) \in {"DL", "WR"}
             \/ Head(jobq) = "Q"
             \/ (Head(jobq) = "ST" /\ run.alive)
             \/ (Head(jobq) \in {"GS", "SG"} /\ ~run.alive)
          /\ JobStep
       \/ WaiterSend
       \/ JobToWait
       \/ WaiterStart
       \/ WaiterReset
    /\ UNCHANGED <<l, pend, kinds, kidsCfg, sig, phase>>

TNext == TReset \/ TAdvance \/ TKid \/ TChangeLine \/ TRecv \/ THandler \/ TSpawn \/ TSignal \/ TKill \/ TEnd
         \/ TOther \/ TEndLine \/ TQuitPhase \/ Silent
TSpec == TInit /\ [][TNext]_tvars

\* the furthest line reached
Progress == TLCSet(1, IF l > TLCGet(1) THEN l ELSE TLCGet(1))

MonDone ==
    LET d == TLCGet(1) IN
    IF d = Len(Rec) + 1 THEN TRUE
    ELSE /\ PrintT(<<"TRACE-REJECTED at line", d, Rec[d]>>) /\ FALSE
=============================================================================
