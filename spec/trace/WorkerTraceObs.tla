--------------------------- MODULE WorkerTraceObs ---------------------------
(***************************************************************************)
(* The same question as WorkerTrace - is the recorded run a behaviour of   *)
(* ActionWorker? - asked of what can be observed from outside only: the    *)
(* calls of the filter, of the action handler (with its batch, and what it *)
(* does: throttle changes, quit requests, its return) and of the error     *)
(* handler, the driver's own lines (events sent, the main task's end).     *)
(* The trace points inside the worker and the error hook (event received,  *)
(* timeout, error accepted by the channel, handler about to be called,     *)
(* quit, worker end, error received by the hook) are hints: WorkerTrace    *)
(* uses them to follow the loop step by step in linear time; here they are *)
(* neither required nor believed, and the steps of the specification that  *)
(* show nothing else are taken silently.  Timed / CheckErrors as there.    *)
(*                                                                         *)
(* A run that WorkerTrace rejects is put to this specification before it   *)
(* is reported.  Acceptance is the furthest line reached (a TLC register;  *)
(* -workers 1).                                                            *)
(***************************************************************************)
EXTENDS ActionWorker, Json, IOUtils

CONSTANTS Timed, CheckErrors

Rec == ndJsonDeserialize(IOEnv.TRACE)

VARIABLES l, oi, mainSeen

tvars == <<wvars, l, oi, mainSeen>>

Hints == {"recv", "timeout", "err_sent", "handler_call", "quit", "worker_end", "err_recv"}
Vis(out) == SelectSeq(out, LAMBDA x : x.e \notin Hints)

OutDone == oi = Len(Vis(W.out))
R == Rec[l]
More == l <= Len(Rec)
Consume == l' = l + 1

Match(r, x) ==
    /\ r.e = x.e /\ r.id = x.id /\ r.a = x.a /\ r.x = x.x
    /\ x.e = "handler_in" => r.pending = x.ids

Choices == IF Timed THEN {"auto"} ELSE {"wait", "enter"}

AtRest == OutDone /\ ~AnyEnabled(now)
TimeOK(t) == IF Timed THEN t = now \/ (t > now /\ AtRest /\ t <= NextDeadline) ELSE t >= now

EvsFrom(ks) ==
    [i \in {ks[j].id : j \in DOMAIN ks} |->
        LET k == CHOOSE k \in {ks[j] : j \in DOMAIN ks} : k.id = i
        IN  [prio |-> k.prio, verdict |-> k.verdict, empty |-> k.empty, hold |-> k.hold,
             act |-> k.act, arg |-> k.arg, onerr |-> k.onerr,
             errhold |-> IF "errhold" \in DOMAIN k THEN k.errhold ELSE 0]]

TraceInit ==
    /\ TLCSet(1, 0)
    /\ l = 1 /\ oi = 0 /\ mainSeen = FALSE
    /\ now = 0 /\ evs = <<>> /\ cap = 1 /\ ecap = 1 /\ queue = {} /\ pending = {} /\ errq = <<>>
    /\ W = InitW(0) /\ main = "run" /\ hist = InitHist

TReset ==
    /\ More /\ R.e = "reset"
    /\ now' = 0 /\ evs' = EvsFrom(R.kids) /\ cap' = R.n /\ ecap' = R.w
    /\ queue' = {} /\ pending' = {} /\ errq' = <<>>
    /\ W' = InitW(R.x) /\ main' = "run" /\ hist' = InitHist
    /\ oi' = 0 /\ mainSeen' = FALSE
    /\ Consume

TSend ==
    /\ More /\ R.e = "send" /\ TimeOK(R.t) /\ now' = R.t
    /\ SendStart(R.id)
    /\ Consume /\ UNCHANGED <<oi, mainSeen>>

TSent ==
    /\ More /\ R.e = "sent" /\ TimeOK(R.t) /\ now' = R.t
    /\ SendComplete(R.id)
    /\ Consume /\ UNCHANGED <<oi, mainSeen>>

TSendErr ==
    /\ More /\ R.e = "send_err" /\ TimeOK(R.t) /\ now' = R.t
    /\ SendFail(R.id)
    /\ Consume /\ UNCHANGED <<oi, mainSeen>>

WStep(t) ==
    \/ \E c \in Choices : \E e \in queue : RecvStep(e, t, c)
    \/ \E c \in Choices : ErrSendComplete(t, c)
    \/ \E c \in Choices : TimeoutStep(t, c)
    \/ HandlerReturn(t)

\* a step of the worker that shows: its first visible observation is the current line
TStep ==
    /\ More /\ OutDone
    /\ TimeOK(R.t)
    /\ WStep(R.t)
    /\ Vis(W'.out) # <<>>
    /\ Match(R, Vis(W'.out)[1])
    /\ oi' = 1
    /\ Consume /\ UNCHANGED mainSeen

\* a step that shows nothing (an unfiltered event taken into the set, a timeout that waits on, an error
\* that the channel accepts at last): at the present time
TSilent ==
    /\ More /\ R.e # "reset" /\ OutDone
    /\ WStep(now)
    /\ Vis(W'.out) = <<>>
    /\ oi' = 0
    /\ UNCHANGED <<l, mainSeen>>

\* the clock moves to the next deadline of the specification on the way to the next line
TAdvance ==
    /\ More /\ R.e # "reset" /\ Timed
    /\ AtRest /\ NextDeadline > now /\ NextDeadline <= R.t
    /\ now' = NextDeadline
    /\ UNCHANGED <<evs, cap, ecap, queue, pending, errq, W, main, hist, l, oi, mainSeen>>

TConsume ==
    /\ More /\ ~OutDone
    /\ IF Timed THEN R.t = now ELSE R.t >= now
    /\ now' = R.t
    /\ Match(R, Vis(W.out)[oi + 1])
    /\ oi' = oi + 1
    /\ Consume /\ UNCHANGED <<evs, cap, ecap, queue, pending, errq, W, main, hist, mainSeen>>

\* a trace point: says nothing here
THint ==
    /\ More /\ R.e \in Hints
    /\ Consume /\ UNCHANGED <<wvars, oi, mainSeen>>

\* the error hook receives the next error: shows nothing
THookTakeSilent ==
    /\ More /\ R.e # "reset"
    /\ ErrHookTake(now)
    /\ UNCHANGED <<l, oi, mainSeen>>

THookCall ==
    /\ More /\ CheckErrors
    /\ R.e = "error" /\ R.t >= now
    /\ W.hookCur # 0
    /\ LET x == HookObs(W.hookCur) IN R.id = x.id /\ R.a = x.a /\ R.n = x.n
    /\ ErrHookCall(R.t)
    /\ Consume /\ UNCHANGED <<oi, mainSeen>>

\* Not judged (C01, C02): consumed; the hook has taken the error from the channel by then
TErrorFree ==
    /\ More /\ ~CheckErrors
    /\ R.e = "error" /\ R.t >= now
    /\ now' = R.t
    /\ main = "run"
    /\ W' = [W EXCEPT !.hookCur = 0]
    /\ main' = IF R.a \in {"elevate", "critical"} THEN "failing" ELSE "run"
    /\ Consume /\ UNCHANGED <<evs, cap, ecap, queue, pending, errq, hist, oi, mainSeen>>

TThrottleEnv ==
    /\ More /\ R.e = "throttle" /\ OutDone
    /\ TimeOK(R.t) /\ now' = R.t
    /\ W' = [W EXCEPT !.throttle = R.x]
    /\ Consume /\ UNCHANGED <<evs, cap, ecap, queue, pending, errq, main, hist, oi, mainSeen>>

TMainEnd ==
    /\ More /\ R.e = "main_end" /\ R.t >= now /\ now' = R.t
    /\ OutDone
    /\ \/ main = "run" /\ W.pc = "ended" /\ R.a = "ok" /\ main' = "ok"
       \/ main = "failing" /\ R.a \in {"err:elevated", "err:external"} /\ main' = "err"
    /\ mainSeen' = TRUE
    /\ Consume /\ UNCHANGED <<evs, cap, ecap, queue, pending, errq, W, hist, oi>>

TEnd ==
    /\ More /\ R.e = "end" /\ TimeOK(R.t) /\ now' = R.t
    /\ OutDone
    /\ ~AnyEnabled(now)
    /\ main = "run" => (W.pc = "collect" /\ W.set = <<>>) \/ W.pc = "errsend"
    /\ main # "run" => (mainSeen /\ main # "failing")
    /\ Consume /\ UNCHANGED <<evs, cap, ecap, queue, pending, errq, W, main, hist, oi, mainSeen>>

TraceNext == TReset \/ TSend \/ TSent \/ TSendErr \/ TStep \/ TSilent \/ TAdvance \/ TConsume \/ THint
             \/ THookTakeSilent \/ THookCall \/ TErrorFree \/ TThrottleEnv \/ TMainEnd \/ TEnd

TraceSpec == TraceInit /\ [][TraceNext]_tvars

TraceView == <<l, oi, now, queue, pending, errq, [W EXCEPT !.batches = <<>>], main, mainSeen>>

Progress == TLCSet(1, IF l > TLCGet(1) THEN l ELSE TLCGet(1))

TraceAccepted ==
    LET d == TLCGet(1) IN
    IF d = Len(Rec) + 1 THEN TRUE
    ELSE /\ PrintT(<<"TRACE-REJECTED at line", d, Rec[d]>>) /\ FALSE
=============================================================================
