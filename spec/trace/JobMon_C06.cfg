SPECIFICATION MonSpec
INVARIANT MonC06
POSTCONDITION MonDone
CHECK_DEADLOCK FALSE
